package main

// Translator for the rest of parser/lex.go: the FULL BODIES of
//
//	lexScanIR   isAlpha, isDigit, isHexDigit, errorToken, (*scanner).ident, (*scanner).quotedIdent,
//	            (*scanner).string, Scan
//
// in the flat prefix-coded IR of harness/extract_lexir.go (same items, same expression coding; the
// expression translator of that file is re-used for every expression it knows), extended by what these
// functions need and the number scanner did not:
//
// statements
//
//	["block"] … ["end"]                { … } with its own scope; `if init; cond { A } else { B }` is
//	                                   written as  block · init · if cond · A · else · B · end · end
//	                                   (the scope of the variables of `init` is the whole `if`, as in Go)
//	["continue"]                       continues the innermost enclosing loop (through switches and ifs)
//	["def", v, "mkscanner", E…]        v := scanner{s: E}      (the struct must have exactly the fields s, pos,
//	                                   last; v may then only be used as `v.f` / `v.m(…)`: never copied)
//	["set", v, "newbuilder"]           v = new(strings.Builder)
//	["def2", a, b, "mapget", m, E…]    a, b := m[E]            (m a package-level map variable)
//	["param", v, "...any"]             a variadic last parameter
//
// expressions
//
//	spread v                           `v...` as the last argument of a call (v the variadic parameter)
//
// `switch` (with or without a tag) is written as an if / else-if chain exactly as in extract_lexir.go;
// a `break` that would leave a switch is refused, `continue` inside a switch is what Go says it is.
// Everything else — `defer`, `range`, labels, `goto`, `fallthrough`, function literals, other
// composite literals, other builtins … — is an error: the step `lexScanIR` fails (alone) and its section
// is taken from the committed copy; nothing is skipped.
// Model/LexScanIRSyntax.lean decodes, Model/LexScanIR.lean interprets, Props/C09ScanIR*.lean prove the
// model's `scanIdent`, `scanQuotedIdent`, `scanString`, `scanOne`, `scan` equal to the interpretation.

import (
	"fmt"
	"go/ast"
	"go/token"
	"strconv"
	"strings"
)

type lstrans struct {
	*lxtrans
	variadic string // name of the variadic parameter of the function being translated ("" = none)
}

func (t *lstrans) lsExprs(list []ast.Expr) ([]string, error) {
	var out []string
	for _, e := range list {
		x, err := t.lsExpr(e)
		if err != nil {
			return nil, err
		}
		out = append(out, x...)
	}
	return out, nil
}

// the expressions of extract_lexir.go, plus a Token literal whose fields may contain a variadic call,
// plus `pkg.F(a, …, v...)`
func (t *lstrans) lsExpr(e ast.Expr) ([]string, error) {
	switch x := e.(type) {
	case *ast.ParenExpr:
		return t.lsExpr(x.X)
	case *ast.CompositeLit:
		if ty, ok := x.Type.(*ast.Ident); ok && ty.Name == "Token" {
			return t.lsToken(x)
		}
	case *ast.CallExpr:
		if x.Ellipsis != token.NoPos {
			return t.lsSpreadCall(x)
		}
	}
	return t.expr(e)
}

func (t *lstrans) lsToken(x *ast.CompositeLit) ([]string, error) {
	if _, shadowed := t.lookup("Token"); shadowed {
		return nil, t.errf(x, "type name shadowed")
	}
	fields := map[string][]string{}
	for _, el := range x.Elts {
		kv, ok := el.(*ast.KeyValueExpr)
		if !ok {
			return nil, t.errf(x, "composite literal with an unkeyed element")
		}
		k, ok := kv.Key.(*ast.Ident)
		if !ok || (k.Name != "Kind" && k.Name != "Span" && k.Name != "Value") {
			return nil, t.errf(x, "composite literal key")
		}
		if _, dup := fields[k.Name]; dup {
			return nil, t.errf(x, "duplicate field")
		}
		v, err := t.lsExpr(kv.Value)
		if err != nil {
			return nil, err
		}
		fields[k.Name] = v
	}
	if fields["Kind"] == nil || fields["Span"] == nil {
		return nil, t.errf(x, "Token literal without Kind or Span")
	}
	val := fields["Value"]
	if val == nil {
		val = []string{"str", ""}
	}
	return lxCat([]string{"mktoken"}, fields["Kind"], fields["Span"], val), nil
}

func (t *lstrans) lsSpreadCall(x *ast.CallExpr) ([]string, error) {
	sel, ok := x.Fun.(*ast.SelectorExpr)
	if !ok {
		return nil, t.errf(x, "variadic spread in a call that is not pkg.F(…)")
	}
	id, ok := sel.X.(*ast.Ident)
	if !ok || !t.imports[id.Name] {
		return nil, t.errf(x, "variadic spread in a call that is not pkg.F(…)")
	}
	if _, isVar := t.lookup(id.Name); isVar {
		return nil, t.errf(x, "package name shadowed")
	}
	n := len(x.Args)
	last, ok := x.Args[n-1].(*ast.Ident)
	if !ok || t.variadic == "" || last.Name != t.variadic {
		return nil, t.errf(x, "spread of something that is not the variadic parameter")
	}
	args, err := t.lsExprs(x.Args[:n-1])
	if err != nil {
		return nil, err
	}
	return lxCat([]string{"call", id.Name + "." + sel.Sel.Name, strconv.Itoa(n)}, args, []string{"spread", last.Name}), nil
}

// `scanner{s: E}`
func (t *lstrans) lsScannerLit(e ast.Expr) (ast.Expr, bool, error) {
	cl, ok := e.(*ast.CompositeLit)
	if !ok {
		return nil, false, nil
	}
	ty, ok := cl.Type.(*ast.Ident)
	if !ok || ty.Name != "scanner" {
		return nil, false, nil
	}
	if _, shadowed := t.lookup("scanner"); shadowed {
		return nil, true, t.errf(e, "type name shadowed")
	}
	st := t.ex.structType("scanner")
	if st == nil {
		return nil, true, t.errf(e, "struct scanner not found")
	}
	var names []string
	for _, f := range st.Fields.List {
		for _, n := range f.Names {
			names = append(names, n.Name+" "+typeString(f.Type))
		}
	}
	if strings.Join(names, ",") != "s string,pos int,last int" {
		return nil, true, t.errf(e, "struct scanner does not have exactly the fields s string, pos int, last int")
	}
	if len(cl.Elts) != 1 {
		return nil, true, t.errf(e, "scanner literal not of the shape scanner{s: E}")
	}
	kv, ok := cl.Elts[0].(*ast.KeyValueExpr)
	if !ok || !isIdent(kv.Key, "s") {
		return nil, true, t.errf(e, "scanner literal not of the shape scanner{s: E}")
	}
	return kv.Value, true, nil
}

// `new(strings.Builder)`
func lsIsNewBuilder(e ast.Expr) bool {
	c, ok := e.(*ast.CallExpr)
	if !ok || !isIdent(c.Fun, "new") || len(c.Args) != 1 || c.Ellipsis != token.NoPos {
		return false
	}
	sel, ok := c.Args[0].(*ast.SelectorExpr)
	return ok && isIdent(sel.X, "strings") && sel.Sel.Name == "Builder"
}

// a variable `v` holding a scanner VALUE is interpreted as the one scanner cell of the store: that is
// right only if the value is never copied — every use must be `v.field` or `v.method(…)`
func (t *lstrans) lsCheckNeverCopied(body *ast.BlockStmt, v string, def *ast.Ident) error {
	sel := map[*ast.Ident]bool{def: true}
	ast.Inspect(body, func(n ast.Node) bool {
		if s, ok := n.(*ast.SelectorExpr); ok {
			if id, ok := s.X.(*ast.Ident); ok {
				sel[id] = true
			}
		}
		if kv, ok := n.(*ast.KeyValueExpr); ok { // a field name of a composite literal is not a use
			if id, ok := kv.Key.(*ast.Ident); ok {
				sel[id] = true
			}
		}
		return true
	})
	var bad ast.Node
	ast.Inspect(body, func(n ast.Node) bool {
		if id, ok := n.(*ast.Ident); ok && id.Name == v && !sel[id] && bad == nil {
			bad = id
		}
		return true
	})
	if bad != nil {
		return t.errf(bad, "the scanner value %s is used other than as %s.field / %s.method(…)", v, v, v)
	}
	return nil
}

type lsfunc struct {
	t    *lstrans
	body *ast.BlockStmt
}

func (f *lsfunc) assign(as *ast.AssignStmt) ([]wItem, error) {
	t := f.t
	if as.Tok == token.DEFINE && len(as.Lhs) == 1 && len(as.Rhs) == 1 {
		arg, is, err := t.lsScannerLit(as.Rhs[0])
		if err != nil {
			return nil, err
		}
		if is {
			e, err := t.lsExpr(arg)
			if err != nil {
				return nil, err
			}
			v, err := t.newVar(as, as.Lhs[0])
			if err != nil {
				return nil, err
			}
			if v == "_" {
				return nil, t.errf(as, "blank definition")
			}
			if err := t.lsCheckNeverCopied(f.body, v, as.Lhs[0].(*ast.Ident)); err != nil {
				return nil, err
			}
			t.declare(v, "scanner")
			return []wItem{lxCat([]string{"def", v, "mkscanner"}, e)}, nil
		}
	}
	if as.Tok == token.ASSIGN && len(as.Lhs) == 1 && len(as.Rhs) == 1 && lsIsNewBuilder(as.Rhs[0]) {
		if _, shadowed := t.lookup("new"); shadowed || !t.imports["strings"] {
			return nil, t.errf(as, "new / strings shadowed")
		}
		if _, shadowed := t.lookup("strings"); shadowed {
			return nil, t.errf(as, "new / strings shadowed")
		}
		it, err := t.store(as, as.Lhs[0], []string{"newbuilder"})
		if err != nil {
			return nil, err
		}
		return []wItem{it}, nil
	}
	if as.Tok == token.DEFINE && len(as.Lhs) == 2 && len(as.Rhs) == 1 {
		if ix, ok := as.Rhs[0].(*ast.IndexExpr); ok {
			m, ok := ix.X.(*ast.Ident)
			if !ok {
				return nil, t.errf(as, "two-valued index of something that is not a package-level map")
			}
			if _, isVar := t.lookup(m.Name); isVar {
				return nil, t.errf(as, "two-valued index of a local variable")
			}
			val := t.ex.varValue(t.pkg, m.Name)
			cl, ok := val.(*ast.CompositeLit)
			if !ok {
				return nil, t.errf(as, "two-valued index of something that is not a package-level map")
			}
			if _, ok := cl.Type.(*ast.MapType); !ok {
				return nil, t.errf(as, "two-valued index of something that is not a package-level map")
			}
			key, err := t.lsExpr(ix.Index)
			if err != nil {
				return nil, err
			}
			a, err := t.newVar(as, as.Lhs[0])
			if err != nil {
				return nil, err
			}
			b, err := t.newVar(as, as.Lhs[1])
			if err != nil {
				return nil, err
			}
			if a == b && a != "_" {
				return nil, t.errf(as, "same name twice")
			}
			if a != "_" {
				t.declare(a, "")
			}
			if b != "_" {
				t.declare(b, "")
			}
			return []wItem{lxCat([]string{"def2", a, b, "mapget", m.Name}, key)}, nil
		}
	}
	// everything else: the assignment forms of extract_lexir.go (their right sides have no spread)
	return t.assign(as)
}

func (f *lsfunc) block(list []ast.Stmt) ([]wItem, error) {
	f.t.push()
	defer f.t.pop()
	return f.stmts(list)
}

func (f *lsfunc) stmts(list []ast.Stmt) ([]wItem, error) {
	var out []wItem
	for _, st := range list {
		its, err := f.stmt(st)
		if err != nil {
			return nil, err
		}
		out = append(out, its...)
	}
	return out, nil
}

func (f *lsfunc) within(kind string, g func() ([]wItem, error)) ([]wItem, error) {
	t := f.t
	t.ctx = append(t.ctx, kind)
	defer func() { t.ctx = t.ctx[:len(t.ctx)-1] }()
	return g()
}

func (f *lsfunc) stmt(st ast.Stmt) ([]wItem, error) {
	t := f.t
	switch s := st.(type) {
	case *ast.AssignStmt:
		return f.assign(s)
	case *ast.IncDecStmt, *ast.DeclStmt, *ast.ExprStmt:
		// leaves: no statement inside them
		return t.stmt(st)
	case *ast.ReturnStmt:
		e, err := t.lsExprs(s.Results)
		if err != nil {
			return nil, err
		}
		return []wItem{lxCat([]string{"return"}, e)}, nil
	case *ast.BlockStmt:
		body, err := f.block(s.List)
		if err != nil {
			return nil, err
		}
		return append(append([]wItem{{"block"}}, body...), wItem{"end"}), nil
	case *ast.IfStmt:
		if s.Init == nil {
			return f.ifStmt(s)
		}
		init, ok := s.Init.(*ast.AssignStmt)
		if !ok || init.Tok != token.DEFINE {
			return nil, t.errf(st, "if with an initialiser that is not a `:=`")
		}
		t.push()
		defer t.pop()
		its, err := f.assign(init)
		if err != nil {
			return nil, err
		}
		rest, err := f.ifStmt(s)
		if err != nil {
			return nil, err
		}
		return append(append(append([]wItem{{"block"}}, its...), rest...), wItem{"end"}), nil
	case *ast.SwitchStmt:
		return f.switchStmt(s)
	case *ast.ForStmt:
		if s.Init != nil || s.Cond != nil || s.Post != nil {
			return nil, t.errf(st, "for loop not of the shape `for { … }`")
		}
		body, err := f.within("for", func() ([]wItem, error) { return f.block(s.Body.List) })
		if err != nil {
			return nil, err
		}
		return append(append([]wItem{{"forever"}}, body...), wItem{"end"}), nil
	case *ast.BranchStmt:
		if s.Label != nil {
			return nil, t.errf(st, "labelled branch")
		}
		switch s.Tok {
		case token.BREAK:
			if len(t.ctx) > 0 && t.ctx[len(t.ctx)-1] == "for" {
				return []wItem{{"break"}}, nil
			}
			return nil, t.errf(st, "`break` that does not leave a loop directly")
		case token.CONTINUE:
			for _, c := range t.ctx {
				if c == "for" {
					return []wItem{{"continue"}}, nil
				}
			}
			return nil, t.errf(st, "`continue` outside a loop")
		}
		return nil, t.errf(st, "branch statement %s", s.Tok)
	}
	return nil, t.errf(st, "statement not of a known shape (%T)", st)
}

// the `if` without its initialiser
func (f *lsfunc) ifStmt(s *ast.IfStmt) ([]wItem, error) {
	t := f.t
	c, err := t.lsExpr(s.Cond)
	if err != nil {
		return nil, err
	}
	out := []wItem{lxCat([]string{"if"}, c)}
	body, err := f.block(s.Body.List)
	if err != nil {
		return nil, err
	}
	out = append(out, body...)
	switch e := s.Else.(type) {
	case nil:
	case *ast.BlockStmt:
		eb, err := f.block(e.List)
		if err != nil {
			return nil, err
		}
		out = append(append(out, wItem{"else"}), eb...)
	case *ast.IfStmt:
		eb, err := f.stmt(e)
		if err != nil {
			return nil, err
		}
		out = append(append(out, wItem{"else"}), eb...)
	default:
		return nil, t.errf(s, "else part")
	}
	return append(out, wItem{"end"}), nil
}

func (f *lsfunc) switchStmt(s *ast.SwitchStmt) ([]wItem, error) {
	t := f.t
	if s.Init != nil {
		return nil, t.errf(s, "switch with an initialiser")
	}
	var tag []string
	if s.Tag != nil {
		id, ok := s.Tag.(*ast.Ident)
		if !ok {
			return nil, t.errf(s, "switch on something that is not a variable")
		}
		e, err := t.expr(id)
		if err != nil {
			return nil, err
		}
		if e[0] != "var" {
			return nil, t.errf(s, "switch on something that is not a variable")
		}
		tag = e
	}
	if len(s.Body.List) == 0 {
		return nil, t.errf(s, "empty switch")
	}
	for i, c := range s.Body.List {
		cc := c.(*ast.CaseClause)
		if cc.List == nil && i != len(s.Body.List)-1 {
			return nil, t.errf(s, "default clause that is not the last clause")
		}
		for _, b := range cc.Body {
			if br, ok := b.(*ast.BranchStmt); ok && br.Tok == token.FALLTHROUGH {
				return nil, t.errf(s, "fallthrough")
			}
		}
	}
	return f.within("switch", func() ([]wItem, error) { return f.cases(s, tag, s.Body.List, true) })
}

func (f *lsfunc) cases(s *ast.SwitchStmt, tag []string, clauses []ast.Stmt, first bool) ([]wItem, error) {
	t := f.t
	if len(clauses) == 0 {
		return nil, nil
	}
	cc := clauses[0].(*ast.CaseClause)
	if cc.List == nil {
		if len(clauses) != 1 || first {
			return nil, t.errf(s, "default clause that is not the last of several clauses")
		}
		return f.block(cc.Body)
	}
	var cond []string
	for i, e := range cc.List {
		c, err := t.lsExpr(e)
		if err != nil {
			return nil, err
		}
		if tag != nil {
			c = lxCat([]string{"eq"}, tag, c)
		}
		if i == 0 {
			cond = c
		} else {
			cond = lxCat([]string{"or"}, cond, c)
		}
	}
	out := []wItem{lxCat([]string{"if"}, cond)}
	body, err := f.block(cc.Body)
	if err != nil {
		return nil, err
	}
	out = append(out, body...)
	rest, err := f.cases(s, tag, clauses[1:], false)
	if err != nil {
		return nil, err
	}
	if len(clauses) > 1 {
		out = append(append(out, wItem{"else"}), rest...)
	}
	return append(out, wItem{"end"}), nil
}

func (t *lstrans) lsFunction(spec lxFuncSpec) ([]wItem, error) {
	t.pkg, t.unit = spec.pkg, spec.key
	fd := t.ex.funcDecl(spec.pkg, spec.recv, spec.name)
	if fd == nil || fd.Body == nil {
		return nil, fmt.Errorf("lexScanIR %s: function not found", spec.key)
	}
	if fd.Type.TypeParams != nil {
		return nil, fmt.Errorf("lexScanIR %s: type parameters", spec.key)
	}
	t.imports = map[string]bool{}
	for _, f := range t.ex.pkgs[spec.pkg] {
		if f.Pos() <= fd.Pos() && fd.End() <= f.End() {
			for _, im := range f.Imports {
				p, _ := strconv.Unquote(im.Path.Value)
				name := p[strings.LastIndex(p, "/")+1:]
				if im.Name != nil {
					return nil, fmt.Errorf("lexScanIR %s: renamed import %s", spec.key, im.Name.Name)
				}
				t.imports[name] = true
			}
		}
	}
	t.scopes, t.ctx, t.variadic = nil, nil, ""
	t.push()
	var out []wItem
	recvName, recvType := "", ""
	if fd.Recv != nil {
		f := fd.Recv.List[0]
		if len(f.Names) != 1 || f.Names[0].Name == "_" {
			return nil, fmt.Errorf("lexScanIR %s: unnamed receiver", spec.key)
		}
		recvName, recvType = f.Names[0].Name, typeString(f.Type)
		t.declare(recvName, recvType)
	}
	out = append(out, wItem{"func", recvName, recvType})
	for i, f := range fd.Type.Params.List {
		if len(f.Names) == 0 {
			return nil, fmt.Errorf("lexScanIR %s: unnamed parameter", spec.key)
		}
		if _, variadic := f.Type.(*ast.Ellipsis); variadic {
			if i != len(fd.Type.Params.List)-1 || len(f.Names) != 1 || typeString(f.Type) != "...any" {
				return nil, fmt.Errorf("lexScanIR %s: variadic parameter not of the shape `name ...any`", spec.key)
			}
			t.variadic = f.Names[0].Name
		}
		for _, n := range f.Names {
			if n.Name == "_" || t.imports[n.Name] {
				return nil, fmt.Errorf("lexScanIR %s: parameter %s", spec.key, n.Name)
			}
			t.declare(n.Name, typeString(f.Type))
			out = append(out, wItem{"param", n.Name, typeString(f.Type)})
		}
	}
	if fd.Type.Results != nil {
		for _, f := range fd.Type.Results.List {
			if len(f.Names) != 0 {
				return nil, fmt.Errorf("lexScanIR %s: named result", spec.key)
			}
			out = append(out, wItem{"result", "", typeString(f.Type)})
		}
	}
	f := &lsfunc{t: t, body: fd.Body}
	body, err := f.stmts(fd.Body.List)
	if err != nil {
		return nil, err
	}
	return append(out, body...), nil
}

func (ex *extractor) lexScanIR(sb *strings.Builder) error {
	t := &lstrans{lxtrans: &lxtrans{ex: ex}}
	specs := []lxFuncSpec{
		{"parser", "", "isAlpha", "isAlpha"}, {"parser", "", "isDigit", "isDigit"}, {"parser", "", "isHexDigit", "isHexDigit"},
		{"parser", "", "errorToken", "errorToken"},
		{"parser", "*scanner", "ident", "scanner.ident"}, {"parser", "*scanner", "quotedIdent", "scanner.quotedIdent"},
		{"parser", "*scanner", "string", "scanner.string"}, {"parser", "", "Scan", "Scan"},
	}
	type unit struct {
		key   string
		items []wItem
	}
	var units []unit
	for _, sp := range specs {
		its, err := t.lsFunction(sp)
		if err != nil {
			return err
		}
		units = append(units, unit{sp.key, its})
	}
	sb.WriteString("/-- parser/lex.go `isAlpha`, `isDigit`, `isHexDigit`, `errorToken`, `(*scanner).ident`, `(*scanner).quotedIdent`,\n    `(*scanner).string`, `Scan`: the full bodies\n    as a flat prefix-coded IR (see harness/extract_lexscan.go): (key, items) -/\n")
	sb.WriteString("def lexScanIR : List (String × List (List String)) :=\n  [")
	for i, u := range units {
		if i > 0 {
			sb.WriteString(",\n   ")
		}
		fmt.Fprintf(sb, "(%s,\n    [", leanStr(u.key))
		for j, it := range u.items {
			if j > 0 {
				sb.WriteString(",\n     ")
			}
			sb.WriteString(leanStrList(it))
		}
		sb.WriteString("])")
	}
	sb.WriteString("]\n\n")
	return nil
}
