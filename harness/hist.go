package main

import (
	"bytes"
	"fmt"
	"os"
	"os/exec"
	"reflect"
	"strings"
	"sync"

	"github.com/runreveal/pql"
	"github.com/runreveal/pql/parser"
)

// HIST src params g k | <compile result> SAME|NONDET PARAMS-OK|PARAMS-CHANGED PS-SAME|PS-NONDET
//   g goroutines each call Compile(src, params) k times, interleaved with Parse/Scan of the same
//   source and with Compile of other sources; every result for (src, params) must be identical
//   and the caller's parameter map must be untouched.
// FIRSTUSE src params n | <compile result> SAME|NONDET [RACE]
//   a fresh process whose very first library calls are n simultaneous Compile(src, params).
func init() {
	moreOps["HIST"] = runHist
	moreOps["FIRSTUSE"] = runFirstUse
	caseSets["hist"] = genHistCases
}

var otherSources = []string{
	"T | where not(a) and iff(b, 1, 2) > 0 | count", "let n = 3; T | take n", "T | join (U) on a | summarize count() by b",
	"T | where strcat(a, 'x') == tolower(b)", "bad ( query", "T | where isnull(a) or isnotnull(b) | top 3 by now()",
}

func cloneMap(m map[string]string) map[string]string {
	if m == nil {
		return nil
	}
	c := make(map[string]string, len(m))
	for k, v := range m {
		c[k] = v
	}
	return c
}

func runHist(c Case) string {
	src := unhex(c.Fields[0])
	params, has := parseParams(c.Fields[1])
	var g, k int
	fmt.Sscanf(c.Fields[2], "%d", &g)
	fmt.Sscanf(c.Fields[3], "%d", &k)
	before := cloneMap(params)
	results := make([][]string, g)
	psResults := make([][]string, g)
	var wg sync.WaitGroup
	start := make(chan struct{})
	for i := 0; i < g; i++ {
		wg.Add(1)
		go func(i int) {
			defer wg.Done()
			defer func() {
				if r := recover(); r != nil {
					results[i] = append(results[i], "PANIC")
				}
			}()
			<-start
			for j := 0; j < k; j++ {
				results[i] = append(results[i], fmtCompile(compileWith(src, params, has)))
				switch (i + j) % 3 {
				case 0:
					pql.Compile(otherSources[(i*7+j)%len(otherSources)])
				case 1:
					stmts, err := parser.Parse(src)
					psResults[i] = append(psResults[i], fmtParse(stmts, err))
				case 2:
					psResults[i] = append(psResults[i], fmtTokens(parser.Scan(src)))
					(&pql.CompileOptions{Parameters: map[string]string{"zz": "1"}}).Compile(otherSources[(i+j)%len(otherSources)])
				}
			}
		}(i)
	}
	close(start)
	wg.Wait()
	first := results[0][0]
	same := "SAME"
	for _, rs := range results {
		for _, r := range rs {
			if r != first {
				same = "NONDET"
			}
		}
	}
	// Parse / Scan: equal inputs give equal results (compare within each kind by length class)
	psSame := "PS-SAME"
	seen := map[byte]string{}
	for _, rs := range psResults {
		for _, r := range rs {
			key := byte('t')
			if strings.HasPrefix(r, "OK") || strings.HasPrefix(r, "ERR") {
				key = 'p'
			}
			if prev, ok := seen[key]; ok && prev != r {
				psSame = "PS-NONDET"
			}
			seen[key] = r
		}
	}
	pOK := "PARAMS-OK"
	if !reflect.DeepEqual(before, params) {
		pOK = "PARAMS-CHANGED"
	}
	return first + " " + same + " " + pOK + " " + psSame
}

func runFirstUse(c Case) string {
	exe, err := os.Executable()
	if err != nil {
		return "HARNESS-ERROR"
	}
	cmd := exec.Command(exe, "firstuse", c.Fields[0], c.Fields[1], c.Fields[2])
	var stdout, stderr bytes.Buffer
	cmd.Stdout = &stdout
	cmd.Stderr = &stderr
	cmd.Env = append(os.Environ(), "GORACE=exitcode=0")
	if err := cmd.Run(); err != nil {
		return "HARNESS-ERROR " + hexs(err.Error()+" "+stderr.String())
	}
	res := strings.TrimSpace(stdout.String())
	if strings.Contains(stderr.String(), "DATA RACE") {
		res += " RACE"
	}
	return res
}

// firstUseMain is the child process of FIRSTUSE: nothing of the library has run yet.
func firstUseMain(args []string) {
	src := unhex(args[0])
	params, has := parseParams(args[1])
	var n int
	fmt.Sscanf(args[2], "%d", &n)
	results := make([]string, n)
	var wg sync.WaitGroup
	start := make(chan struct{})
	for i := 0; i < n; i++ {
		wg.Add(1)
		go func(i int) {
			defer wg.Done()
			defer func() {
				if r := recover(); r != nil {
					results[i] = "PANIC"
				}
			}()
			<-start
			results[i] = fmtCompile(compileWith(src, params, has))
		}(i)
	}
	close(start)
	wg.Wait()
	same := "SAME"
	for _, r := range results {
		if r != results[0] {
			same = "NONDET"
		}
	}
	fmt.Println(results[0] + " " + same)
}

func genHistCases(tier string, emit func(op string, fields ...string)) {
	n := 40
	if tier == "thorough" {
		n = 600
	}
	for i := 0; i < n; i++ {
		ps := pick(paramSets)
		var names []string
		for k := range ps {
			names = append(names, k)
		}
		src := genProgram(names, 1+rng.Intn(3), false)
		if i%5 == 0 {
			src = pick(compileCorpus)
		}
		g := pick([]int{2, 4, 8, 16, 64})
		pf := fmtParams(ps)
		if ps == nil && rng.Intn(2) == 0 {
			pf = "0"
		}
		emit("HIST", hexs(src), pf, fmt.Sprint(g), fmt.Sprint(1+rng.Intn(6)))
	}
	for i := 0; i < n/4+4; i++ {
		ps := pick(paramSets)
		src := pick([]string{"T | where not(a)", "T | where iff(a, b, c) == strcat(d, e)", "T | count", "let n = 1; T | take n",
			"T | where tolower(a) == 'x' | summarize countif(b) by c", "T | where now() > ts"})
		emit("FIRSTUSE", hexs(src), fmtParams(ps), fmt.Sprint(pick([]int{2, 8, 32})))
	}
}
