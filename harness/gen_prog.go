package main

// Grammar-directed generator of PQL programs (G3) and their corruptions (G4).
// It builds random trees and prints them with the parentheses the grammar requires
// (plus random redundant ones), random layout and keyword synonyms.

import (
	"fmt"
	"sort"
	"strconv"
	"strings"
)

// ---- expression trees

type enode struct {
	kind string // ident qual lit unary bin in index call paren
	op   string
	text string   // ident / literal text (already PQL syntax)
	kids []*enode // operands; for "in": kids[0] is X, the rest the list
}

var binOps = []struct {
	text string
	prec int
}{
	{"or", 0}, {"and", 1},
	{"==", 2}, {"!=", 2}, {"<", 2}, {"<=", 2}, {">", 2}, {">=", 2}, {"=~", 2}, {"!~", 2},
	{"+", 3}, {"-", 3}, {"*", 4}, {"/", 4}, {"%", 4},
}

func binPrec(op string) int {
	for _, b := range binOps {
		if b.text == op {
			return b.prec
		}
	}
	return -1
}

type progGen struct {
	cols      []string // column-like names to draw identifiers from
	bound     []string // let / parameter names in scope
	joinCtx   bool     // $left/$right allowed
	aggregate bool     // aggregate calls allowed at the top of an expression
	maxDepth  int
	safeNames bool // only plain identifiers (for evaluator-oriented cases)
	misuse    int  // per-mille probability of planting a documented misuse at an identifier / call site
	evalMode  bool // programs the reference evaluators can run: tables T U V, columns a b c k s, fresh new names
	fresh     *int
}

var plainNames = []string{"a", "b", "c", "x", "y", "name", "ts", "user_id", "cnt", "_v", "a1", "T2", "In", "BY", "Or", "AND", "Not", "True", "NULL", "Asc", "Kind", "Let", "iN", "oR", "By", "And"}
var oddNames = []string{"`my col`", "`a``b`", "`x'y`", "`sel\"ect`", "`--`", "`/*`", "`;`", "`\\`", "where", "count", "by2", "let", "kind", "on", "asc", "nulls", "with", "$x", "`é`", "`$left`"}
var unknownFuncs = []string{"foo", "lower", "startswith", "sum", "min", "max", "avg", "dcount", "f_2", "abs"}
var stringLits = []string{`'a'`, `"b"`, `''`, `'it\'s'`, `"say \"hi\""`, `'a\nb'`, `'tab\there'`, `'back\\slash'`, `'C:\\'`, `"A:\\"`,`'--'`, `'/*'`, `';'`, `'"'`, `"'"`, "'`'", `'é'`, `'日本'`, `'%'`, `'x;y'`}
var numberLits = []string{"0", "1", "2", "42", "007", "3.14", ".5", "1.", "1e3", "1E-2", "0x1F", "0XaB", "0.0", "10", "100000000000", "1e309", "1E+400", "1e-400", "0.1234567890123456789", "9007199254740993.0", "123456789012345678901234567890.5", "1.0000000000000000001", "2.50", "18446744073709551616"}

func pick[T any](xs []T) T { return xs[rng.Intn(len(xs))] }

func (g *progGen) ident() *enode {
	if g.misuse > 0 && rng.Intn(1000) < g.misuse {
		// $left / $right outside a join condition, in any part of a name
		return &enode{kind: "qual", text: pick([]string{"$left.a", "a.$left", "x.y.$right", "$right", "$right.b.c", "t.$right.c", "`q`.$left"})}
	}
	if g.evalMode {
		switch r := rng.Intn(12); {
		case r < 9:
			return &enode{kind: "ident", text: pick(g.cols)}
		case r < 10 && len(g.bound) > 0:
			return &enode{kind: "ident", text: pick(g.bound)}
		case r < 11 && g.joinCtx:
			return &enode{kind: "qual", text: pick([]string{"$left", "$right"}) + "." + pick([]string{"a", "b", "c", "k", "s"})}
		default:
			return &enode{kind: "ident", text: pick([]string{"true", "false", "null"})}
		}
	}
	switch r := rng.Intn(20); {
	case r < 11:
		return &enode{kind: "ident", text: pick(g.cols)}
	case r < 13 && len(g.bound) > 0:
		if rng.Intn(4) == 0 {
			// the QUOTED spelling of a bound name: a column, never the binding - also when the unquoted one follows
			return &enode{kind: "ident", text: "`" + pick(g.bound) + "`"}
		}
		return &enode{kind: "ident", text: pick(g.bound)}
	case r < 15 && !g.safeNames:
		return &enode{kind: "ident", text: pick(oddNames[:12])}
	case r < 17 && !g.safeNames:
		return &enode{kind: "qual", text: pick(g.cols) + "." + pick(plainNames)}
	case r < 18:
		return &enode{kind: "ident", text: pick([]string{"true", "false", "null"})}
	case r < 20 && g.joinCtx:
		return &enode{kind: "qual", text: pick([]string{"$left", "$right"}) + "." + pick(g.cols)}
	}
	return &enode{kind: "ident", text: pick(g.cols)}
}

func (g *progGen) atom() *enode {
	if g.evalMode {
		switch r := rng.Intn(10); {
		case r < 5:
			return g.ident()
		case r < 8:
			return &enode{kind: "lit", text: pick([]string{"0", "1", "2", "3"})}
		default:
			return &enode{kind: "lit", text: pick([]string{"'a'", "'A'", "'b'"})}
		}
	}
	switch r := rng.Intn(10); {
	case r < 5:
		return g.ident()
	case r < 8:
		return &enode{kind: "lit", text: pick(numberLits)}
	default:
		return &enode{kind: "lit", text: pick(stringLits)}
	}
}

var builtins = []struct {
	name string
	n    int
}{{"not", 1}, {"isnull", 1}, {"isnotnull", 1}, {"tolower", 1}, {"toupper", 1}, {"iff", 3}, {"iif", 3}, {"strcat", -1}, {"now", 0}}

func (g *progGen) call(depth int) *enode {
	n := &enode{kind: "call"}
	if g.misuse > 0 && rng.Intn(1000) < 3*g.misuse {
		// a built-in with the wrong number of arguments
		b := pick(builtins)
		n.text = b.name
		k := b.n + 1 + rng.Intn(2)
		if b.n < 0 {
			k = 0
		} else if b.n > 0 && rng.Intn(2) == 0 {
			k = b.n - 1
		}
		for i := 0; i < k; i++ {
			n.kids = append(n.kids, g.expr(depth-1))
		}
		return n
	}
	switch r := rng.Intn(10); {
	case r < 6:
		b := pick(builtins)
		n.text = b.name
		k := b.n
		if k < 0 {
			k = 1 + rng.Intn(3)
		}
		for i := 0; i < k; i++ {
			n.kids = append(n.kids, g.expr(depth-1))
		}
	default:
		n.text = pick(unknownFuncs)
		if g.evalMode {
			n.text = pick([]string{"foo", "lower", "abs", "f_2"})
		}
		k := rng.Intn(4)
		for i := 0; i < k; i++ {
			n.kids = append(n.kids, g.expr(depth-1))
		}
	}
	if rng.Intn(8) == 0 && len(n.kids) > 0 {
		n.op = "," // trailing comma
	}
	return n
}

func (g *progGen) expr(depth int) *enode {
	if depth <= 0 {
		return g.atom()
	}
	switch r := rng.Intn(20); {
	case r < 4:
		return g.atom()
	case r < 11:
		b := pick(binOps)
		return &enode{kind: "bin", op: b.text, kids: []*enode{g.expr(depth - 1), g.expr(depth - 1)}}
	case r < 13:
		return &enode{kind: "unary", op: pick([]string{"-", "+"}), kids: []*enode{g.expr(depth - 1)}}
	case r < 15:
		n := &enode{kind: "in", kids: []*enode{g.expr(depth - 1)}}
		k := 1 + rng.Intn(3)
		for i := 0; i < k; i++ {
			n.kids = append(n.kids, g.expr(depth-2))
		}
		return n
	case r < 16 && !g.evalMode:
		return &enode{kind: "index", kids: []*enode{g.expr(depth - 1), g.expr(depth - 1)}}
	case r < 18:
		return g.call(depth)
	default:
		return &enode{kind: "paren", kids: []*enode{g.expr(depth - 1)}}
	}
}

// level is the binding level an expression exposes on its left edge when printed without
// parentheses: the minimum precedence along its left spine (an `in` test counts as 2),
// 9 for atoms and prefix/postfix forms.
func (g *progGen) toks(n *enode, out *[]string) {
	emit := func(s ...string) { *out = append(*out, s...) }
	// child printed with parentheses unless its exposed level is at least min
	// redundant parentheses come in one to three layers
	wrap := func(c *enode, layers int) {
		for i := 0; i < layers; i++ {
			emit("(")
		}
		g.toks(c, out)
		for i := 0; i < layers; i++ {
			emit(")")
		}
	}
	extra := func() int {
		if rng.Intn(10) == 0 {
			return 1 + rng.Intn(3)
		}
		return 0
	}
	child := func(c *enode, min int) {
		if exposedLevel(c) < min {
			wrap(c, 1+extra())
		} else {
			wrap(c, extra())
		}
	}
	switch n.kind {
	case "ident", "lit":
		emit(n.text)
	case "qual":
		parts := strings.Split(n.text, ".")
		for i, p := range parts {
			if i > 0 {
				emit(".")
			}
			emit(p)
		}
	case "paren":
		emit("(")
		g.toks(n.kids[0], out)
		emit(")")
	case "unary":
		emit(n.op)
		// operand is a primary expression: atom, call, paren, index
		c := n.kids[0]
		if c.kind == "unary" || exposedLevel(c) < 9 {
			wrap(c, 1+extra())
		} else {
			wrap(c, extra())
		}
	case "bin":
		p := binPrec(n.op)
		child(n.kids[0], p)
		emit(n.op)
		child(n.kids[1], p+1)
	case "in":
		child(n.kids[0], 2)
		emit("in", "(")
		for i, v := range n.kids[1:] {
			if i > 0 {
				emit(",")
			}
			g.toks(v, out)
		}
		emit(")")
	case "index":
		c := n.kids[0]
		// base is an inner primary: atom, call or paren (one index only)
		if c.kind == "ident" || c.kind == "qual" || c.kind == "lit" || c.kind == "call" || c.kind == "paren" {
			wrap(c, extra())
		} else {
			wrap(c, 1+extra())
		}
		emit("[")
		g.toks(n.kids[1], out)
		emit("]")
	case "call":
		emit(n.text, "(")
		for i, a := range n.kids {
			if i > 0 {
				emit(",")
			}
			g.toks(a, out)
		}
		if n.op == "," {
			emit(",")
		}
		emit(")")
	}
}

// exposedLevel: what an unparenthesised print of n exposes to operators on either side.
// Conservative (never larger than the truth), so parentheses are only ever added.
func exposedLevel(n *enode) int {
	switch n.kind {
	case "bin":
		p := binPrec(n.op)
		if l := exposedLevel(n.kids[0]); l < p {
			return l
		}
		return p
	case "in":
		if l := exposedLevel(n.kids[0]); l < 2 {
			return l
		}
		return 2
	case "unary":
		return 8 // tighter than every binary operator, looser than indexing
	}
	return 9
}

// ---- layout

var seps = []string{" ", " ", " ", " ", "  ", "\n", "\t", " \n  ", " // note\n", "\r\n", " ", " //\n", " // 3.5\" wide\n", " // it's\n", " // `tick ; (\n", " //\x00 nul\n"}

func isBracketish(s string) bool {
	switch s {
	case "(", ")", "[", "]", ",", "|", ";":
		return true
	}
	return false
}

// layout joins tokens with random separators; tokens are never glued unless one of them is a
// bracket, comma, pipe or semicolon (which cannot merge with a neighbour).
func layout(toks []string, fancy bool) string {
	var sb strings.Builder
	for i, t := range toks {
		if i > 0 {
			glue := isBracketish(t) || isBracketish(toks[i-1])
			switch {
			case !fancy:
				if !(glue && (t == ")" || t == "," || toks[i-1] == "(" || t == "]" || toks[i-1] == "[")) {
					sb.WriteByte(' ')
				}
			case glue && rng.Intn(3) == 0:
			default:
				sb.WriteString(pick(seps))
			}
		}
		sb.WriteString(t)
	}
	if fancy && rng.Intn(6) == 0 {
		sb.WriteString(pick([]string{" ", "\n", " // end", " // end\n"}))
	}
	return sb.String()
}

// ---- tabular expressions

type opts struct {
	depth      int
	joins      int // remaining join nesting budget
	allowOdd   bool
	violations *[]string // planted rule violations (for C13), nil = none
}

func (g *progGen) colName() string {
	if g.evalMode {
		*g.fresh++
		return "n" + strconv.Itoa(*g.fresh)
	}
	if g.misuse > 0 && rng.Intn(1000) < g.misuse {
		// $left / $right as a bare column (of project) or as the name a column is given
		return pick([]string{"$left", "$right"})
	}
	if !g.safeNames && rng.Intn(6) == 0 {
		return pick(oddNames)
	}
	return pick(plainNames)
}

func (g *progGen) exprToks(depth int) []string {
	var out []string
	g.toks(g.expr(depth), &out)
	return out
}

func (g *progGen) aggToks(depth int) []string {
	if g.evalMode {
		switch rng.Intn(5) {
		case 0:
			return []string{"count", "(", ")"}
		case 1:
			return append(append([]string{"countif", "("}, g.exprToks(depth)...), ")")
		case 2:
			return []string{pick([]string{"sum", "min", "max"}), "(", pick([]string{"a", "b", "c", "k"}), ")"}
		case 3:
			return []string{"sum", "(", pick([]string{"a", "b"}), ")", "+", "count", "(", ")"}
		default:
			return []string{pick([]string{"min", "max"}), "(", pick([]string{"a", "s"}), ")"}
		}
	}
	switch rng.Intn(6) {
	case 0:
		return []string{"count", "(", ")"}
	case 1:
		return append(append([]string{"countif", "("}, g.exprToks(depth)...), ")")
	case 2:
		return append(append([]string{pick([]string{"sum", "min", "max", "avg"}), "("}, g.exprToks(depth-1)...), ")")
	case 3:
		return append(append([]string{"sum", "("}, g.exprToks(depth-1)...), ")", "/", "count", "(", ")")
	default:
		return g.exprToks(depth)
	}
}

func (g *progGen) sortTermToks(depth int) []string {
	t := g.exprToks(depth)
	switch rng.Intn(4) {
	case 0:
		t = append(t, "asc")
	case 1:
		t = append(t, "desc")
	}
	switch rng.Intn(5) {
	case 0:
		t = append(t, "nulls", "first")
	case 1:
		t = append(t, "nulls", "last")
	}
	return t
}

func commaJoin(items [][]string) []string {
	var out []string
	for i, it := range items {
		if i > 0 {
			out = append(out, ",")
		}
		out = append(out, it...)
	}
	return out
}

var opNames = []string{"where", "project", "extend", "summarize", "sort", "take", "top", "count", "as", "render", "join"}

func (g *progGen) operator(name string, o opts) []string {
	d := o.depth
	switch name {
	case "where":
		return append([]string{pick([]string{"where", "filter"})}, g.exprToks(d)...)
	case "project":
		var cols [][]string
		for i, n := 0, 1+rng.Intn(3); i < n; i++ {
			if rng.Intn(2) == 0 {
				cols = append(cols, []string{g.colName()})
			} else {
				cols = append(cols, append([]string{g.colName(), "="}, g.exprToks(d)...))
			}
		}
		return append([]string{"project"}, commaJoin(cols)...)
	case "extend":
		var cols [][]string
		for i, n := 0, 1+rng.Intn(3); i < n; i++ {
			if rng.Intn(3) == 0 {
				cols = append(cols, g.exprToks(d))
			} else {
				cols = append(cols, append([]string{g.colName(), "="}, g.exprToks(d)...))
			}
		}
		return append([]string{"extend"}, commaJoin(cols)...)
	case "summarize":
		var cols, by [][]string
		nc := rng.Intn(3)
		nb := rng.Intn(3)
		if nc == 0 && nb == 0 {
			nc = 1
		}
		for i := 0; i < nc; i++ {
			if rng.Intn(2) == 0 {
				cols = append(cols, g.aggToks(d))
			} else {
				cols = append(cols, append([]string{g.colName(), "="}, g.aggToks(d)...))
			}
		}
		for i := 0; i < nb; i++ {
			if rng.Intn(2) == 0 {
				by = append(by, g.exprToks(d-1))
			} else {
				by = append(by, append([]string{g.colName(), "="}, g.exprToks(d-1)...))
			}
		}
		out := append([]string{"summarize"}, commaJoin(cols)...)
		if nb > 0 {
			if nc > 0 && rng.Intn(8) == 0 {
				out = append(out, ",") // comma directly before `by` is accepted
			}
			out = append(out, "by")
			out = append(out, commaJoin(by)...)
		}
		return out
	case "sort":
		var terms [][]string
		for i, n := 0, 1+rng.Intn(3); i < n; i++ {
			terms = append(terms, g.sortTermToks(d-1))
		}
		return append([]string{pick([]string{"sort", "order"}), "by"}, commaJoin(terms)...)
	case "take":
		return []string{pick([]string{"take", "limit"}), g.rowCount()}
	case "top":
		return append([]string{"top", g.rowCount(), "by"}, g.sortTermToks(d-1)...)
	case "count":
		return []string{"count"}
	case "as":
		return []string{"as", g.colName()}
	case "render":
		out := []string{"render", pick([]string{"timechart", "barchart", "piechart", "`my chart`", "table"})}
		if rng.Intn(2) == 0 {
			var props [][]string
			for i, n := 0, 1+rng.Intn(3); i < n; i++ {
				val := pick([]string{"'My Title'", "stacked", "true", "42", "`q id`", "xcolumn"})
				props = append(props, []string{pick([]string{"title", "kind", "xcolumn", "legend", "`odd name`"}), "=", val})
			}
			out = append(out, "with", "(")
			out = append(out, commaJoin(props)...)
			out = append(out, ")")
		}
		return out
	case "join":
		out := []string{"join"}
		if rng.Intn(2) == 0 {
			out = append(out, "kind", "=", pick([]string{"inner", "innerunique", "leftouter"}))
		}
		out = append(out, "(")
		sub := *g
		sub.joinCtx = false
		out = append(out, sub.tabular(opts{depth: d - 1, joins: o.joins - 1, allowOdd: o.allowOdd})...)
		out = append(out, ")", "on")
		jg := *g
		jg.joinCtx = true
		var conds [][]string
		for i, n := 0, 1+rng.Intn(2); i < n; i++ {
			switch rng.Intn(3) {
			case 0:
				conds = append(conds, []string{pick(plainNames)})
			case 1:
				c := pick(g.cols)
				conds = append(conds, []string{"$left", ".", c, "==", "$right", ".", pick(g.cols)})
			default:
				conds = append(conds, jg.exprToks(d-1))
			}
		}
		return append(out, commaJoin(conds)...)
	}
	return nil
}

func (g *progGen) rowCount() string {
	if g.evalMode {
		return pick([]string{"0", "1", "2", "3", "5"})
	}
	if g.misuse > 0 && rng.Intn(1000) < 4*g.misuse {
		// a non-integer literal row count (rejected by the parser)
		return pick([]string{"1.5", "1e3", "1E3", "2E+2", "0E0", ".5", "1.", "3.0", "1e-1", "0.0e0", "'5'", "\"3\""})
	}
	if len(g.bound) > 0 && rng.Intn(4) == 0 {
		return pick(g.bound)
	}
	// integer literals of every spelling and size are row counts (the lexer bounds only hexadecimal ones)
	return pick([]string{"1", "5", "10", "100", "0", "0x10", "007", "0XfF", "18446744073709551615", "18446744073709551616",
		"99999999999999999999", "000000000000000000000000001", "0xffffffffffffffff", "9223372036854775808"})
}

func (g *progGen) tableName() string {
	if g.evalMode {
		return pick([]string{"T", "U", "V"})
	}
	if !g.safeNames && rng.Intn(6) == 0 {
		return pick([]string{"`my table`", "`weird\"name`", "`t``1`", "T_1", "$t"})
	}
	return pick([]string{"T", "Users", "logs", "events", "U", "V"})
}

func (g *progGen) tabular(o opts) []string {
	out := []string{g.tableName()}
	n := rng.Intn(5)
	if rng.Intn(10) == 0 {
		n += 4
	}
	for i := 0; i < n; i++ {
		name := pick(opNames)
		if g.evalMode && o.joins > 0 && rng.Intn(3) == 0 {
			name = "join"
		}
		if name == "join" && (o.joins <= 0 || (!g.evalMode && rng.Intn(2) == 0)) {
			name = "where"
		}
		if name == "render" && rng.Intn(2) == 0 {
			name = "take"
		}
		out = append(out, "|")
		out = append(out, g.operator(name, o)...)
	}
	return out
}

// constExprToks: a closed constant expression for a let value
func (g *progGen) constExprToks(depth int) []string {
	sub := *g
	sub.cols = []string{"true", "false", "null"}
	if len(g.bound) > 0 {
		sub.cols = append(sub.cols, g.bound...)
	}
	sub.bound = nil
	sub.safeNames = true
	sub.joinCtx = false
	var out []string
	e := sub.expr(depth)
	sub.toks(e, &out)
	return out
}

// program: statements = lets, query, maybe lets after, with empty statements sprinkled in.
func genProgramToks(params []string, depth int) []string {
	return genProgramToksMisuse(params, depth, 0)
}

func genProgramToksMisuse(params []string, depth int, misuse int) []string {
	g := &progGen{cols: plainNames[:6+rng.Intn(6)], maxDepth: depth, misuse: misuse}
	g.bound = append(g.bound, params...)
	var out []string
	nlets := 0
	switch rng.Intn(4) {
	case 0:
		nlets = 1 + rng.Intn(3)
	}
	for i := 0; i < nlets; i++ {
		name := pick([]string{"n", "lim", "thr", "a", "x", "v1"})
		out = append(out, "let", name, "=")
		out = append(out, g.constExprToks(rng.Intn(3))...)
		out = append(out, ";")
		if rng.Intn(8) == 0 {
			out = append(out, ";")
		}
		g.bound = append(g.bound, name)
	}
	out = append(out, g.tabular(opts{depth: depth, joins: 2, allowOdd: true})...)
	switch rng.Intn(6) {
	case 0:
		out = append(out, ";")
	case 1:
		out = append(out, ";", "let", "after", "=", "1")
	case 2:
		out = append(out, ";", ";")
	}
	return out
}

func genProgram(params []string, depth int, fancy bool) string {
	return layout(genProgramToks(params, depth), fancy)
}

// ---- corruptions (G4)

func corruptTokens(toks []string) []string {
	t := append([]string(nil), toks...)
	if len(t) == 0 {
		return t
	}
	i := rng.Intn(len(t))
	junk := []string{"(", ")", "[", "]", ",", "|", ";", "=", "==", "and", "in", "by", "+", "-", ".", "!", "'", "`", "1", "x", "0x", "\"open", "#", "\\"}
	switch rng.Intn(6) {
	case 0: // delete
		t = append(t[:i], t[i+1:]...)
	case 1: // insert
		t = append(t[:i], append([]string{pick(junk)}, t[i:]...)...)
	case 2: // duplicate
		t = append(t[:i], append([]string{t[i]}, t[i:]...)...)
	case 3: // transpose
		if i+1 < len(t) {
			t[i], t[i+1] = t[i+1], t[i]
		}
	case 4: // truncate
		t = t[:i]
	case 5: // replace
		t[i] = pick(junk)
	}
	return t
}

func init() {
	caseSets["parse"] = genParseCases
}

func genParseCases(tier string, emit func(op string, fields ...string)) {
	nValid, nCorrupt := 4000, 8000
	if tier == "thorough" {
		nValid, nCorrupt = 60000, 200000
	}
	for _, s := range parseCorpus {
		emit("PARSE", hexs(s))
		emit("PIECES", hexs(s))
	}
	for _, s := range genWidePrograms(2) {
		emit("PARSE", hexs(s))
	}
	// Parse of a whole source vs Parse of its pieces: several statements, some broken, with
	// semicolons inside brackets, strings, comments (C15)
	for i := 0; i < nValid/4; i++ {
		var sb strings.Builder
		for k, n := 0, 1+rng.Intn(4); k < n; k++ {
			switch rng.Intn(6) {
			case 0:
				sb.WriteString(pick([]string{"X | where (a", "X | where f(a", "X | project a[1", "let n = (1", "X | join (Y | where z == 1", "X | where a)", "X | where a]", "let", "X |", "", " ", "// c\n",
					"X | where s == ';'", "X | where `a;b` == 1", "X // c ; d\n| count", "X | where a == 'open", "X ! Y", "X | where (a; b)", "X | where c[0; 1]", "let n = 1 2"}))
			case 1:
				toks := corruptTokens(genProgramToks(nil, 1+rng.Intn(2)))
				sb.WriteString(layout(toks, false))
			default:
				sb.WriteString(genProgram(nil, 1+rng.Intn(2), rng.Intn(2) == 0))
			}
			if k < n-1 || rng.Intn(3) == 0 {
				sb.WriteString(pick([]string{";", "; ", ";\n", ";;"}))
			}
		}
		emit("PIECES", hexs(sb.String()))
	}
	for i := 0; i < nValid; i++ {
		depth := 1 + rng.Intn(4)
		if i%50 == 0 {
			depth = 7
		}
		emit("PARSEV", hexs(genProgram(nil, depth, i%3 != 0)))
	}
	// valid programs behind / around things some tools treat as invisible: a byte order mark,
	// other zero-width or non-ASCII space runes, a NUL, "--" and "#" (comment openers elsewhere)
	for i := 0; i < nValid/40; i++ {
		prog := genProgram(nil, 1+rng.Intn(2), i%2 == 0)
		junk := pick([]string{"\ufeff", "\ufeff\ufeff", "\u200b", "\u00a0", "\u2028", "\x00", "\ufffe", "\xef\xbb", "-- c\n", "# c\n", "/* c */"})
		switch i % 3 {
		case 0:
			emit("PARSE", hexs(junk+prog))
		case 1:
			emit("PARSE", hexs(prog+junk))
		default:
			j := strings.Index(prog, "|")
			if j < 0 {
				j = 0
			}
			emit("PARSE", hexs(prog[:j]+junk+prog[j:]))
		}
	}
	for i := 0; i < nCorrupt; i++ {
		toks := genProgramToks(nil, 1+rng.Intn(3))
		for k, n := 0, 1+rng.Intn(2); k < n; k++ {
			toks = corruptTokens(toks)
		}
		emit("PARSE", hexs(layout(toks, i%2 == 0)))
	}
	// byte-level corruption and token soups
	for i := 0; i < nCorrupt/4; i++ {
		s := []byte(genProgram(nil, 1+rng.Intn(3), false))
		if len(s) > 0 {
			switch rng.Intn(3) {
			case 0:
				s[rng.Intn(len(s))] = byte(rng.Intn(256))
			case 1:
				j := rng.Intn(len(s))
				s = append(s[:j], s[j+1:]...)
			case 2:
				s = s[:rng.Intn(len(s))]
			}
		}
		emit("PARSE", hexs(string(s)))
	}
	for i := 0; i < nCorrupt/4; i++ {
		emit("PARSE", hexs(randomLexSource(10)))
	}
	// line/column computation at every position of multi-line sources with tabs and non-ASCII (C10)
	for i := 0; i < nValid/20; i++ {
		src := genProgram(nil, 1+rng.Intn(2), true)
		if i%3 == 0 {
			src = strings.ReplaceAll(src, " ", "\t")
		}
		for _, pos := range []int{0, len(src), rng.Intn(len(src) + 1), rng.Intn(len(src) + 1)} {
			emit("LINECOL", hexs(src), strconv.Itoa(pos))
		}
	}
	for _, s := range []string{"", "\n", "a\tb\n\tc", "é\n日本\t|", "\t\t\t", "\xff\n\xfe", "a\r\nb"} {
		for pos := 0; pos <= len(s); pos++ {
			emit("LINECOL", hexs(s), strconv.Itoa(pos))
		}
	}
	// pathological nesting (C12)
	for _, n := range []int{10, 100, 1000, 3000} {
		if tier != "thorough" && n > 1000 {
			continue
		}
		emit("PARSE", hexs("T | where "+strings.Repeat("(", n)+"a"+strings.Repeat(")", n)))
		emit("PARSE", hexs("T | where "+strings.Repeat("(", n)))
		emit("PARSE", hexs("T | where "+strings.Repeat("f(", n)+"a"+strings.Repeat(")", n)))
		emit("PARSE", hexs("T | where "+strings.Repeat("a[", n)+"1"+strings.Repeat("]", n)))
		emit("PARSE", hexs("T | where "+strings.Repeat("-(", n)+"a"+strings.Repeat(")", n)))
		emit("PARSE", hexs("T | where a"+strings.Repeat(" + a", n)))
		emit("PARSE", hexs("T | where a"+strings.Repeat(" or a and a == a + a * a", n/4+1)))
		emit("PARSE", hexs("T"+strings.Repeat(" | join (T", n/10+1)+strings.Repeat(") on a", n/10+1)))
		emit("PARSE", hexs("T | where a in ("+strings.Repeat("a in (", n/2)+"1"+strings.Repeat(")", n/2)+")"))
		emit("PARSE", hexs(strings.Repeat(";", n)))
		emit("PARSE", hexs("T"+strings.Repeat(" | count", n)))
		emit("PARSE", hexs("T | where "+strings.Repeat(")", n)))
		emit("PARSE", hexs("T | where "+strings.Repeat("!", n)))
	}
}

// parseCorpus: hand-written edge cases and minimised past failures, run first.
var parseCorpus = []string{
	"Sales | where In > 0 and By == 'x'", "States | project OR, IN", "IN | count", "let In = 5; States | take In", "States | summarize count() by Region, Or", "States | sort by AND desc nulls last, Region",
	"States | join kind=inner (Other | project By) on By", "States | as By", "States | where Region.In == 1", "T | where a iN (1)", "T | summarize count() BY a", "T | where a AND b", "T | where a Or b",
	"", ";", ";;", "T", "T;", "T | count", "T | where (a)", "T | where f(b[=])", "T | summarize a, b[ | where c",
	"T | summarize a,", "T | summarize a, | where c", "T | summarize a, by b", "T | summarize by a,", "T | summarize",
	"T | extend a+b", "T | extend x = ", "T | project a,", "T | project a = 1 b", "T | sort by a,", "T | sort a",
	"T | sort by a asc nulls", "T | sort by a nulls first", "T | sort by a desc nulls last, b", "T | top 5 by a asc",
	"T | top 5", "T | top 1.5 by a", "T | take 1.5", "T | take -1", "T | take n", "T | take", "T | as", "T | as x y",
	"T | render", "T | render timechart with", "T | render timechart with ()", "T | render timechart with (a=1,)",
	"T | render timechart with (a=1", "T | render t with (title='x', kind=stacked)",
	"T | join (U) on a", "T | join kind=inner (U | where x) on $left.a == $right.b, c", "T | join kind=foo (U) on a",
	"T | join kind (U) on a", "T | join (U on a", "T | join (U)", "T | join (U) on", "T | join", "T | join kind=",
	"T | join ( ) on a", "T | join (U | ) on a", "T | join (U) on a,",
	"T | where a in (1,2)", "T | where a in (1,)", "T | where a in ()", "T | where a in 1", "T | where a in (1", "T | where a in",
	"T | where a in (1) + 2", "T | where a + b in (1) * 2", "T | where a and b in (1) or c", "T | where a in (1) in (2)",
	"T | where -a[1]", "T | where (-a)[1]", "T | where - -a", "T | where -(-a)", "T | where a[1][2]", "T | where a[", "T | where a[]", "T | where a[1",
	"T | where f()", "T | where f(,)", "T | where f(1,)", "T | where f(1,,)", "T | where f(1", "T | where f(1 2)", "T | where a.b.c", "T | where a.", "T | where a.b(1)",
	"T | where `q`(1)", "T | where ()", "T | where (a", "T | where a)", "T | where a b", "T | where", "T | where 1 +", "T | where + ", "T | where a == == b",
	"T | | count", "T | 5", "T | bogus x", "T |", "| count", "T U", "let x = 1", "let x = 1;", "let = 1; T", "let x 1; T", "let x = ; T", "let x = 1 2; T",
	"let x = 1; let y = x + 1; T | take y", "T; U", "T !; U", "T | where a == 'unterminated", "T | where `open", "T | where 0x", "T | where a ! b",
	"\ufeffT | count", "\ufeffT | summarize count() by State", "\ufeffX | join (Y) on Key", "T | where a--b > 0 | count", "T | extend d = x--1, e = 2 | take 5",
	"let n = 1--2; T | take n", "T | where x > 1e+", "T | where x > 1e", "T | extend y = 3e", "T | where x > .5e", "T | where 2e-x > 1", "T | where x == 1e0",
	"T | where a\n| count // c\n", "T // only comment", "// nothing", "T | where a // c", "x = p", "T | where x = p",
}

func init() {
	caseSets["walk"] = genWalkCases
}

// genWidePrograms: nodes with MANY children (lists of 15..70 elements: `in` values, call arguments, project /
// extend / summarize columns, group keys, sort terms, join conditions, render properties), literals and
// non-literals mixed in every order - list-length thresholds (16, 32, 64) in a traversal, a writer or a span union
func genWidePrograms(k int) []string {
	elem := func(i int) string {
		switch rng.Intn(7) {
		case 0:
			return fmt.Sprintf("c%d", i)
		case 1:
			return fmt.Sprintf("-%d", i)
		case 2:
			return fmt.Sprintf("t.c%d", i)
		case 3:
			return fmt.Sprintf("tolower(s%d)", i)
		case 4:
			return fmt.Sprintf("(%d)", i)
		case 5:
			return fmt.Sprintf("'v%d'", i)
		}
		return fmt.Sprintf("%d", i)
	}
	list := func(n int, f func(int) string) string {
		var xs []string
		for i := 0; i < n; i++ {
			xs = append(xs, f(i+1))
		}
		return strings.Join(xs, ", ")
	}
	var out []string
	for r := 0; r < k; r++ {
		n := pick([]int{15, 16, 17, 18, 31, 32, 33, 40, 64, 65, 70})
		out = append(out,
			"T | where id in ("+list(n, elem)+") | count",
			"T | where not(x in ("+list(n, func(i int) string { return fmt.Sprintf("%d", i) })+", -1, other))",
			"T | extend n1 = strcat("+list(n, elem)+")",
			"T | project "+list(n, func(i int) string { return pick([]string{fmt.Sprintf("c%d", i), fmt.Sprintf("n%d = c%d + 1", i, i)}) }),
			"T | summarize "+list(n, func(i int) string { return fmt.Sprintf("n%d = sum(c%d)", i, i) })+" by "+list(n, func(i int) string { return fmt.Sprintf("k%d", i) }),
			"T | sort by "+list(n, func(i int) string { return fmt.Sprintf("c%d %s", i, pick([]string{"asc", "desc", "asc nulls last", "desc nulls first"})) }),
			"T | join kind=inner (U) on "+list(n, func(i int) string { return pick([]string{fmt.Sprintf("k%d", i), fmt.Sprintf("$left.a%d == $right.b%d", i, i)}) }),
			"A | join (B) on $left.k == $right.k, ($left.id in ("+list(n, func(i int) string { return fmt.Sprintf("%d", i) })+", $right.alt)) == 1",
			"T | render t with ("+list(n, func(i int) string { return fmt.Sprintf("p%d = %d", i, i) })+")",
		)
	}
	return out
}

func genWalkCases(tier string, emit func(op string, fields ...string)) {
	n := 3000
	if tier == "thorough" {
		n = 50000
	}
	for _, s := range parseCorpus {
		emit("WALK", hexs(s), "-")
		emit("WALK", hexs(s), "10")
	}
	for _, s := range genWidePrograms(3) {
		emit("WALK", hexs(s), "-")
		emit("WALK", hexs(s), "110")
	}
	for i := 0; i < n; i++ {
		depth := 1 + rng.Intn(4)
		src := genProgram(nil, depth, i%4 == 0)
		emit("WALK", hexs(src), "-")
		// pseudo-random pruning masks
		var mb strings.Builder
		for k, m := 0, 1+rng.Intn(12); k < m; k++ {
			if rng.Intn(3) == 0 {
				mb.WriteByte('0')
			} else {
				mb.WriteByte('1')
			}
		}
		emit("WALK", hexs(src), mb.String())
	}
}

func init() {
	caseSets["compile"] = genCompileCases
}

var paramSets = []map[string]string{
	nil, nil, nil,
	{},
	{"p": "$1"},
	{"p": "$1", "lim": "{lim:Int32}"},
	{"a": "$2", "x": "?"},
	{"true": "FALSE", "n": "5"},
	{"name": "'bob'", "thr": "3.5"},
	{"p": "$1", " p": "$2", "p ": "$3", "\tp": "$4", "P": "$5", "p\n": "$6", "n": "7", " n": "8", "thr": "$9", "thr ": "$10"},
}

// weirdParams: parameter VALUES that are not SQL expressions at all.  Only totality (C12) and the
// model correspondence are checked on these: what such text does to the SQL is the caller's business.
var weirdParamValues = []string{"", " ", "-", "+", "-1", "+1", "--", "/*", "*/", "'", "\"", "(", ")", "a b", "\x00", "\xff", ";", "$1", "1 + 2", "é"}

var weirdParamSources = []string{
	"T | where -p > 0", "T | where +p > 0", "T | where -(p) > 0", "T | extend y = p[0]", "T | extend y = p[p]", "let q = p; T | where x == q",
	"let q = -p; T | where x == -q", "T | where x == p", "T | take p", "T | top p by p", "T | where p in (p, 1)", "T | where not(p)", "T | where isnull(p) and p",
	"T | join (U | where p) on $left.a == p", "T | project p = p, q = p + 1", "T | summarize count() by p", "T | sort by p", "T | where strcat(p, p) == 'x'",
	"T | where iff(p, p, p)", "T | where p.a == 1", "T | where `p` == 1", "T | where f(p)", "let p = 1; T | where -p > 0", "let a = p; let p = a; T | take p",
	"T | render p with (p = p)", "T | as p", "p | count",
}

func genWeirdParamCases(tier string, emit func(op string, fields ...string)) {
	for _, src := range weirdParamSources {
		for _, v := range weirdParamValues {
			emit("COMPILE", hexs(src), fmtParams(map[string]string{"p": v}))
			emit("COMPILE", hexs(src), fmtParams(map[string]string{"p": v, "": v, "q": "p"}))
		}
	}
	n := 300
	if tier == "thorough" {
		n = 6000
	}
	for i := 0; i < n; i++ {
		names := []string{"p", "n", "lim", "thr", "x", "a"}
		ps := map[string]string{}
		for _, nm := range names {
			if rng.Intn(2) == 0 {
				ps[nm] = pick(weirdParamValues)
			}
		}
		emit("COMPILE", hexs(genProgram(names, 1+rng.Intn(2), false)), fmtParams(ps))
	}
}

func init() { caseSets["weirdparams"] = genWeirdParamCases }

func genCompileCases(tier string, emit func(op string, fields ...string)) {
	n := 6000
	if tier == "thorough" {
		n = 100000
	}
	for _, s := range parseCorpus {
		emit("COMPILE", hexs(s), "-")
	}
	for _, s := range compileCorpus {
		emit("COMPILE", hexs(s), "-")
		emit("COMPILE", hexs(s), fmtParams(map[string]string{"p": "$1", "n": "5"}))
	}
	for _, s := range genWidePrograms(2) {
		emit("COMPILE", hexs(s), "-")
	}
	for i := 0; i < n; i++ {
		ps := pick(paramSets)
		var names []string
		for k := range ps {
			names = append(names, k)
		}
		sort.Strings(names)
		depth := 1 + rng.Intn(4)
		src := genProgram(names, depth, i%5 == 0)
		pf := fmtParams(ps)
		if ps == nil && rng.Intn(3) == 0 {
			pf = "0" // zero options value (nil map) instead of nil options
		}
		emit("COMPILE", hexs(src), pf)
	}
	// corrupted programs: either/or contract, no panic
	for i := 0; i < n/2; i++ {
		toks := genProgramToks(nil, 1+rng.Intn(3))
		toks = corruptTokens(toks)
		emit("COMPILE", hexs(layout(toks, false)), "-")
	}
	// documented misuses planted at random positions and depths (C13), and the bad-let forms
	for i := 0; i < n/3; i++ {
		emit("COMPILE", hexs(layout(genProgramToksMisuse(nil, 1+rng.Intn(4), 15+rng.Intn(40)), false)), "-")
	}
	for _, s := range []string{
		"T | where a.$left == 1", "T | project x = a.b.$right", "T | extend y = strcat(tolower(t.$left), 'x')", "T | join (U | where u.$left == 1) on k",
		"T | take 1.25e1", "T | limit 12.5e0", "T | top 0.125E2 by x", "T | take .5e0", "T | take 1.05e+1", "T | top 3.14159e2 by x", "T | take 2.5e3", "T | take 1.50e1", "T | take 1e18", "T | take 1e19",
		"T | render linechart with (title=\"\")", "T | render linechart with (title='')", "T | render linechart with (t=``)", "T | render t with (ymin=-5, title=1+2)", "T | render `` with (a='')",
		"T | take 1E3", "T | take 1e3", "T | limit 2E+2", "T | top 5E1 by x", "T | take 0E0", "T | take 1.5", "T | take .5", "T | take 1.", "T | take '5'",
		"T | join (U | take 1E3) on k", "T | take 0x1E3", "T | take 007", "T | top 0x10 by a",
		"T | take 18446744073709551616", "T | top 100000000000000000000 by a", "T | join kind=inner (U | take 99999999999999999999) on a | count", "T | limit 18446744073709551615",
		"T | where `$left`.a == 1", "T | where a.`$left` == 1", "T | join (U) on a.$left == $right.b", "T | sort by $right.a", "T | take $left",
		"T | summarize count() by $left.k", "T | top 3 by x.$right", "let v = a.$left; T", "T | where f(g(h($right.x)))",
	} {
		emit("COMPILE", hexs(s), "-")
	}
	// two compilations with the same options value: lets of the first must not be visible in the second
	seqPairs := [][2]string{
		{"let p = 7; let extra = 1 + 2; T | where a == p | take extra", "T | where a == p and b == extra"},
		{"let n = 1; T | take n", "T | take n"},
		{"let x = 'v'; T | where s == x", "let y = x; T | where s == y"},
		{"T | where a == p", "let p = 2; T | where a == p"},
		{"let limit = 10; T | take limit", "let n = limit + 1; T | take n"},
		{"T | where not(a, b)", "U | count"},
		{"T | where a == 1 | extend y = strcat() | count", "U | where b == 2 | take 1"},
		{"T | where $left.a == 1", "let q = 1; U | where b == q"},
		// sources that differ only in surrounding white space: the positions in their error messages differ
		{"T | where", "T | where\n"}, {"T | frobnicate", "\nT | frobnicate"}, {"T | where not(a, b)", "\n\n\nT | where not(a, b)"},
		{"T | take 1 | where $left.x == 1", "\n   T | take 1 | where $left.x == 1\n"}, {"\tT | where iff(a)", "T | where iff(a)"},
		{" T | join (U) on", "T | join (U) on "}, {"T | where strcat()  ", "  T | where strcat()"}, {"T |", "\r\n\tT |"},
	}
	for _, pr := range seqPairs {
		for _, ps := range paramSets {
			emit("COMPILESEQ", hexs(pr[0]), hexs(pr[1]), fmtParams(ps))
		}
		emit("COMPILESEQ", hexs(pr[0]), hexs(pr[1]), "0")
	}
	// every built-in with a wrong (and with a right) number of arguments directly inside every built-in
	{
		arg := func(name string, n int) string {
			as := make([]string, n)
			for i := range as {
				as[i] = "x"
			}
			return name + "(" + strings.Join(as, ", ") + ")"
		}
		for _, outer := range builtins {
			for _, inner := range builtins {
				for _, n := range []int{0, 1, 2, 3, 4} {
					in := arg(inner.name, n)
					k := outer.n
					if k < 0 {
						k = 2
					}
					var as []string
					for i := 0; i < k; i++ {
						if i == k-1 {
							as = append(as, in)
						} else {
							as = append(as, "y")
						}
					}
					if k == 0 {
						continue
					}
					emit("COMPILE", hexs("T | extend z = "+outer.name+"("+strings.Join(as, ", ")+")"), "-")
					emit("COMPILE", hexs("T | where "+outer.name+"(("+in+"))"+pick([]string{"", " == 1", " and b"})), "-")
				}
			}
		}
	}
	for _, s := range compileCorpus {
		emit("COMPILE", hexs(s), "0")
		emit("COMPILE", hexs(s), "=")
	}
	for i := 0; i < n/20; i++ {
		ps := pick(paramSets)
		var names []string
		for k := range ps {
			names = append(names, k)
		}
		sort.Strings(names)
		a := genProgram(names, 1+rng.Intn(2), false)
		b := genProgram(append(names, "n", "lim", "thr", "x", "v1"), 1+rng.Intn(2), false)
		emit("COMPILESEQ", hexs(a), hexs(b), fmtParams(ps))
	}
}

// compileCorpus: hand-written edge cases and minimised past failures, run first.
var compileCorpus = []string{
	"let n = 5; T | where `n` > n", "let n = 5; T | where `n` > 0 | extend y = n * 2", "let n = 2; T | sort by `n` asc | take n", "let k = 1; T | join (U) on $left.a == $right.a, `k` == k",
	"T | where `p` != 0 | where Id == p", "T | summarize total = countif(`n` > n) by `n`", "let n = 5; T | where n < `n`", "T | where `null` == null and `true` == true",
	"T | project $left", "T | project a, $right, b = 1", "T | join (U | project $right) on a", "T | extend $left = 1", "T | project $left = a", "T | summarize $right = count()",
	"T | as $left", "T | take 5 | project a, $left", "T | join (U) on a | project a, $left", "let n = 1; T | project n, $left", "T | project `$left`", "T | summarize count() by $right = a",
	"Sales | where In > 0 and By == 'x'", "States | project OR, IN", "IN | count", "let In = 5; States | take In", "States | summarize count() by Region, Or", "States | sort by AND desc nulls last, Region",
	"States | join kind=inner (Other | project By) on By", "States | as By", "States | where Region.In == 1", "T | where a * +(b + c) > 3", "T | where +(a + b) * c > 3", "T | where a - +(b - c) == 0", "T | where 7 % +(a + 3) == 1",
	"T | where $foo(a) > 1", "T | extend x = $f(1) + $left(2)", "T | where Not(a) + 1 > 0", "T | where Case(a) > 1", "T | where x == AND(a)", "T | where is(a)", "T | project y = In(a, b)", "T | where not(a) + 1 > 0",
	"T | where null(1) == 1", "T | where true(1)", "T | where false(a.b) > 0", "T | where current_timestamp(1) > 0",
	"T | where -((-a)) > 0", "T | where -(((-a))) > 0", "let n = ((-1)); T | where a > -n", "T | where ((-a))[1] == 2", "T | where +((+a))",
	"T | extend k = -((-a)) | where k > 0 | take 3", "T | where ((not(a))) in (1)", "T | where -((not(a)))", "T | where ((iff(a, b, c))) + 1",
	"let v = ((not(a))); T", "T | where (((a + b))) * c", "T | where a - (((b - c)))", "T | sort by ((-a)) asc", "T | take ((5))",
	"T | where (a)", "T | where ((a))", "T | where -(-b)", "T | where -(+b)", "T | where (-a)[1]", "T | where -a[1]",
	"let n = -5; T | where -n > 0", "let n = -5; T | where n[1] > 0", "let n = 5; T | take n", "let n = (5); T | take n",
	"T | where not(a) in (1,2)", "T | where not(a) == b", "T | where -not(a)", "T | where not(a)[1]", "T | where not(not(a))",
	"T | where not(a) and b", "T | where isnull(a) == true", "T | where iff(a, b, c) + 1", "T | where strcat(a, b) == 'x'",
	"T | render `x' , (select 1) as y, '`", "T | render t with (`a\" b` = 'v''w')", "T | render t with (title = `x'y`)",
	"let k = 1; T | join (U) on $left.a == k", "T | join (U) on a", "T | join (U) on ($left.x) == $right.y",
	"T | join kind=leftouter (U | where z | project a) on a, $left.b == $right.c | count",
	"T | join (U | join (V) on a) on b | join (W) on c", "T | take 1 | sort by a", "T | sort by a | sort by b", "T | take 1 | take 2",
	"T | top 3 by a | top 2 by b", "T | project a | sort by a", "T | as x | take 1", "T | render t | take 1", "T | count | count",
	"T | where a == 'it\\'s'", "T | where a == \"back\\\\\"", "T | project `a\"b` = 1", "T | extend a+b, -c", "T | summarize count() by a, b",
	"T | summarize x = count(), countif(a > 1) by k = a", "T | where a =~ 'X' and b !~ 'y'", "T | where a in (1, -2, (3))",
	"T | where a.b == 1", "T | where $left.a == 1", "T | where not()", "T | where now(1)", "T | where iff(a)", "T | where strcat()",
	"T; U", "let x = y; T", "let x = `q`; T", "let x = a.b; T", "let x = 1; let x = x + 1; T | take x", "T | take 1; let n = 2",
	"T | where true and false or null", "T | where 0x1F == 31 and .5 < 1. and 1e3 > 007", "`my table` | count", "T | where f(1, 'a', b)",
	"T | where a[1] == 2", "T | where a['k'] == 2", "T | where -1 - -1", "T | where a - (b - c)", "T | where (a + b) * c", "T | where a + b * c",
	"T | where a in (1) + 2", "T | extend x = a in (1, 2)", "T | sort by a asc, b desc nulls first, c nulls last",
	"T | summarize a,", "T | where f(b[=])", "__subquery0 | join (__subquery0) on a", "T | as __subquery1 | count",
}


func init() {
	caseSets["eval"] = genEvalCases
}

// genEvalProgram: a program over tables T U V (columns a b c k s) that the reference evaluators
// can run; new column and `as` names are fresh.
func genEvalProgram(depth int, joins int) string {
	fresh := 0
	g := &progGen{cols: []string{"a", "b", "c", "k", "s"}, evalMode: true, safeNames: true, fresh: &fresh}
	var out []string
	if rng.Intn(5) == 0 {
		out = append(out, "let", "lim", "=", pick([]string{"1", "2", "1 + 1", "-1", "(2)"}), ";")
		g.bound = append(g.bound, "lim")
	}
	out = append(out, g.tabular(opts{depth: depth, joins: joins})...)
	return layout(out, false)
}

var evalCorpus = []string{
	"T | take 1 | sort by a", "T | sort by a | take 1", "T | sort by a asc | sort by b", "T | take 2 | take 1", "T | take 1 | take 2",
	"T | top 2 by a | top 1 by b asc", "T | project n1 = a | sort by n1", "T | where a > 0 | take 1", "T | take 1 | where a > 0",
	"T | count | count", "T | summarize count() by a | sort by a asc", "T | summarize n1 = sum(b), n2 = count() by a, c",
	"T | extend n1 = a + 1 | where n1 > 1 | project n1, b", "T | sort by a desc nulls first, b asc nulls last | take 2",
	"T | as x1 | take 1 | as x2 | count", "T | render t | take 1", "T | take 1 | render t with (title='x')",
	"T | join (U) on k", "T | join kind=inner (U) on k", "T | join kind=leftouter (U) on k", "T | join kind=inner (U) on $left.a == $right.b",
	"T | where a > 0 | join kind=inner (U | where b > 0 | project k, n1 = a) on k | count",
	"T | where a > 0 | join kind=inner (U | join kind=inner (V) on k) on k", "T | join kind=inner (U) on k | join kind=inner (V) on k",
	"T | take 2 | join kind=leftouter (U | take 1) on k | sort by a", "T | join (U) on k, $left.a == $right.a | summarize count() by k",
	"T | join kind=inner (U | sort by a | take 1) on k | take 1", "T | sort by a | join kind=inner (U) on k",
	"T | where a in (1, 2) and not(isnull(b)) | project a, n1 = iff(b > 1, 'x', s)", "T | summarize by a", "T | summarize count()",
	"T | where s =~ 'A' | count", "T | where a == null | count", "T | where a != 1 | count", "T | extend n1 = strcat(s, 'x') | take 3",
	"T | top 1 by a | sort by b | take 1", "T | take 3 | summarize count()", "T | summarize n1 = count() | take 1",
	"T | project a, b | take 1 | project a", "T | sort by a | project a", "T | sort by a | where b > 0", "T | take 2 | extend n1 = 1 | sort by a",
	"let k = 1; T | join (U) on k | count", "let k = 1; T | join kind=leftouter (U) on k, $left.a == $right.a | sort by a | take 3",
	"let a = 2; let k = a; T | where a > 0 | join kind=inner (U | where k > 0) on k | summarize n1 = count() by k",
	"let $left = 1; T | join kind=inner (U) on not($left == $right.k) | count", "let $right = 1; T | join kind=inner (U) on not($left.k == $right) | count",
	"T | summarize by k | join kind=inner (U) on k | join (V) on k", "T | count | extend k = 1 | join kind=leftouter (U) on k | join (V) on k",
	"T | summarize n1 = count() by k | where n1 > 0 | join kind=inner (U | project k, n2 = b) on k | join kind=innerunique (V | project k, n3 = c) on k",
	"T | join kind=inner (U) on k | sort by a | take 2 | where b > 0", "T | join kind=leftouter (U) on k | top 2 by a desc | where a > 1",
	"T | join kind=inner (U) on k | top 3 by b | where k > 1 | count", "T | join (U) on k | sort by a desc, b | take 1 | where a < 2",
	"T | join kind=inner (U) on k | sort by a | take 2 | extend n1 = a + 1 | where n1 > 2", "T | join kind=inner (U) on k | top 2 by a | project a | sort by a desc",
	"T | as x1 | where a > 0 | as x1 | count", "T | where a > 0 | as x1 | join (U | as x1) on k", "T | as __subquery1 | where a > 0 | count",
	"T | project k | as x1 | join (x1) on k", "T | project k | as x1 | join (x1 | where k > 0) on k | count", "T | summarize by a | project k = 1 | as x1 | join (x1) on k", "T | as x1 | join (x1) on k", "T | as x1 | join (x1 | where b > 0) on k | count", "T | project k, a | as x1 | join kind=innerunique (x1) on k", "T | as x1 | join kind=inner (x1) on k | summarize count() by k",
	"let n = 3; T | sort by a, b | take n | take 1", "let n = 3; T | top n by a | take 2", "let n = 2; let m = n; T | sort by b | take 3 | take m | take 1",
	"let n = 3; T | sort by a | take n | take 2 | count", "let n = 1; T | sort by a | take 2 | take n",
	"T | sort by a desc | where k > 0 | take 2 | summarize n1 = sum(a)", "T | sort by a | extend n1 = a * 2 | take 2 | summarize n2 = min(a), n3 = max(n1) by k",
}

// genJoinChain: two joins in one pipeline with operators before, between and after them
// (what a second join sees as its left side is the RESULT of the first, duplicates included)
func genJoinChain() string {
	pre := []string{"", "", "summarize by k", "summarize n1 = count() by k", "count | extend k = 1", "where a > 0", "project k, a", "sort by a", "take 3",
		"summarize by k | where k > 0", "summarize n1 = max(a) by k | sort by n1 | take 2", "extend n1 = a + 1"}
	mid := []string{"", "", "", "where k > 0", "sort by k", "take 3", "extend n4 = 1", "as x7"}
	post := []string{"", "", "count", "summarize n5 = count() by k", "sort by k asc | take 2", "project k", "sort by k asc | take 2 | where k > 1", "top 1 by k | where k < 2 | count"}
	kinds := []string{"", "", "kind=inner ", "kind=innerunique ", "kind=leftouter "}
	right1 := []string{"U", "U", "U | project k, n2 = b", "U | where b > 0 | project k", "U | project k"}
	right2 := []string{"V", "V | project k, n3 = c", "V | summarize by k", "V | project k"}
	parts := []string{"T"}
	add := func(x string) {
		if x != "" {
			parts = append(parts, x)
		}
	}
	add(pick(pre))
	add("join " + pick(kinds) + "(" + pick(right1) + ") on k")
	add(pick(mid))
	add("join " + pick(kinds) + "(" + pick(right2) + ") on k")
	add(pick(post))
	return strings.Join(parts, " | ")
}

func genEvalCases(tier string, emit func(op string, fields ...string)) {
	n := 4000
	if tier == "thorough" {
		n = 80000
	}
	seed := 0
	for _, s := range evalCorpus {
		reps := 3
		if strings.HasPrefix(s, "let $") || strings.Contains(s, "| as x1 | where a > 0 | as x1") || strings.Contains(s, "(U | as x1)") {
			reps = 12 // known finding K5 shows only on databases with a NULL join key
		}
		for k := 0; k < reps; k++ {
			seed++
			emit("EVAL", hexs(s), strconv.Itoa(seed*7))
		}
	}
	for i := 0; i < n; i++ {
		seed++
		joins := 0
		if i%3 == 0 {
			joins = 2
		}
		emit("EVAL", hexs(genEvalProgram(1+rng.Intn(2), joins)), strconv.Itoa(seed*7))
	}
	for i := 0; i < n/8; i++ {
		seed++
		emit("EVAL", hexs(genJoinChain()), strconv.Itoa(seed*7))
	}
	// exhaustive short operator sequences with fixed small arguments (C02)
	opsFixed := []string{"where a > 0", "where b > 0", "project a, b, k", "project k, a", "extend n9 = a + 1", "summarize n8 = count() by a", "sort by a asc", "sort by b",
		"take 2", "top 2 by b", "count", "as x1", "render t"}
	maxLen := 3
	if tier == "thorough" {
		maxLen = 4
	}
	for l := 1; l <= maxLen; l++ {
		enumerate(opsFixed, l, func(string) {})
	}
	var rec func(prefix []string, l int)
	rec = func(prefix []string, l int) {
		if l == 0 {
			seed++
			emit("EVAL", hexs("T | "+strings.Join(prefix, " | ")), strconv.Itoa(seed*7))
			return
		}
		for _, o := range opsFixed {
			rec(append(append([]string{}, prefix...), o), l-1)
		}
	}
	for l := 1; l <= maxLen; l++ {
		rec(nil, l)
	}
}
