package main

// Constants of the code under test as seeds for the search ("magic numbers"): `harness consts <repo>` lists the
// integer and string literals of the non-test Go sources; `check` compares them with the list of the pinned tree
// (const_baseline.json) and hands the NEW ones to the case set "magic" (environment VERIF_MAGIC), which builds
// inputs around them: lengths, counts, depths and values n-1, n, n+1, and the new strings in every name position.
// A change that behaves differently only beyond a threshold, or only for a particular word, names that threshold
// or word in its source.  The set is only generated for a tree whose constants differ from the pinned ones.

import (
	"encoding/json"
	"fmt"
	"go/ast"
	"go/parser"
	"go/token"
	"os"
	"path/filepath"
	"sort"
	"strconv"
	"strings"
)

type constList struct {
	Ints []int64  `json:"ints"`
	Strs []string `json:"strs"`
	// occurrences (consts output only): a value that occurs MORE often than in the pinned tree is new, too
	IntCount map[string]int `json:"int_count,omitempty"`
	StrCount map[string]int `json:"str_count,omitempty"`
}

func collectConsts(repo string) constList {
	ints := map[int64]int{}
	strs := map[string]int{}
	fset := token.NewFileSet()
	for _, dir := range []string{repo, filepath.Join(repo, "parser"), filepath.Join(repo, "cmd", "pql")} {
		ents, _ := os.ReadDir(dir)
		for _, e := range ents {
			n := e.Name()
			if e.IsDir() || !strings.HasSuffix(n, ".go") || strings.HasSuffix(n, "_test.go") || strings.HasPrefix(n, "verif_") {
				continue
			}
			f, err := parser.ParseFile(fset, filepath.Join(dir, n), nil, 0)
			if err != nil {
				continue
			}
			ast.Inspect(f, func(x ast.Node) bool {
				// `64 * 1024`, `1 << 16`: the folded value is the threshold, not its factors
				if be, ok := x.(*ast.BinaryExpr); ok {
					l, ok1 := be.X.(*ast.BasicLit)
					r, ok2 := be.Y.(*ast.BasicLit)
					if ok1 && ok2 && l.Kind == token.INT && r.Kind == token.INT {
						a, e1 := strconv.ParseInt(l.Value, 0, 64)
						b, e2 := strconv.ParseInt(r.Value, 0, 64)
						if e1 == nil && e2 == nil && a >= 0 && b >= 0 {
							switch be.Op {
							case token.MUL:
								if b == 0 || a <= (1<<40)/(b+1) {
									ints[a*b]++
								}
							case token.SHL:
								if b < 40 {
									ints[a<<uint(b)]++
								}
							case token.ADD:
								ints[a+b]++
							case token.SUB:
								ints[a-b]++
							}
						}
					}
				}
				// a fixed-width integer type is a threshold too (a 64-bit word used as a stack of bits)
				if id, ok := x.(*ast.Ident); ok {
					switch id.Name {
					case "uint64", "int64":
						ints[64]++
					case "uint32", "int32":
						ints[32]++
					case "uint16", "int16":
						ints[16]++
					case "uint8", "int8", "byte":
						ints[8]++
					}
				}
				if bl, ok := x.(*ast.BasicLit); ok {
					switch bl.Kind {
					case token.INT:
						if v, err := strconv.ParseInt(bl.Value, 0, 64); err == nil {
							ints[v]++
						}
					case token.CHAR:
						if r, _, _, err := strconv.UnquoteChar(strings.Trim(bl.Value, "'"), '\''); err == nil {
							strs[string(r)]++
						}
					case token.STRING:
						if s, err := strconv.Unquote(bl.Value); err == nil && len(s) <= 40 {
							strs[s]++
						}
					}
				}
				return true
			})
		}
	}
	out := constList{IntCount: map[string]int{}, StrCount: map[string]int{}}
	for v, c := range ints {
		out.Ints = append(out.Ints, v)
		out.IntCount[strconv.FormatInt(v, 10)] = c
	}
	for s, c := range strs {
		out.Strs = append(out.Strs, s)
		out.StrCount[s] = c
	}
	sort.Slice(out.Ints, func(i, j int) bool { return out.Ints[i] < out.Ints[j] })
	sort.Strings(out.Strs)
	return out
}

func constsMain(args []string) {
	b, _ := json.Marshal(collectConsts(args[0]))
	fmt.Println(string(b))
}

func init() { caseSets["magic"] = genMagicCases }

func rep(s string, n int) string {
	if n < 0 {
		n = 0
	}
	return strings.Repeat(s, n)
}

func genMagicCases(tier string, emit func(op string, fields ...string)) {
	var m constList
	if err := json.Unmarshal([]byte(os.Getenv("VERIF_MAGIC")), &m); err != nil {
		return
	}
	seen := map[int]bool{}
	var ns []int
	for _, v := range m.Ints {
		for _, d := range []int64{-1, 0, 1} {
			n := v + d
			if n >= 1 && n <= 70000 && !seen[int(n)] {
				seen[int(n)] = true
				ns = append(ns, int(n))
			}
		}
	}
	sort.Ints(ns)
	if len(ns) > 60 {
		ns = ns[:60]
	}
	lexAndParse := func(src string) {
		emit("SCAN", hexs(src))
		emit("SPLIT", hexs(src))
		if len(src) <= 70000 {
			emit("PARSE", hexs(src))
			emit("PIECES", hexs(src))
		}
	}
	prog := func(src string) {
		lexAndParse(src)
		if len(src) <= 70000 {
			emit("COMPILE", hexs(src), "-")
			emit("WALK", hexs(src), "-")
			emit("WALK", hexs(src), "110")
		}
	}
	// programs that are valid by construction: the parser must accept them (PARSEV) whatever their size
	valid := func(src string) {
		// (not sent as must-parse cases: some of these shapes - long sign chains, mixed lists - are rejected by the
		// pinned parser too, and a must-parse verdict on them would be a false alarm on a harmless change)
		prog(src)
	}
	for _, n := range ns {
		// lexical sizes
		lexAndParse("T | where " + rep("a", n) + " == 1")
		lexAndParse("T | where s == '" + rep("x", n) + "'")
		lexAndParse("T | where s == \"" + rep("é", n) + "\" | count")
		lexAndParse("T // " + rep("c", n) + "\n| count")
		lexAndParse(rep(" ", n) + "T | count")
		lexAndParse(rep("\n", n) + "T | where")
		lexAndParse("T | where x == " + rep("7", n))
		lexAndParse("T | where `" + rep("q", n) + "` == 1")
		// a literal with an escape whose unescaped value reaches n bytes with a multi-byte character across the boundary
		for pre := 0; pre <= 4 && pre < n; pre++ {
			for _, ch := range []string{"é", "€", "😀", "\xff"} {
				lexAndParse("T | where m == \"\\t" + rep("a", n-pre) + ch + "\" | count")
				lexAndParse("T | where m == '" + rep("a", n-pre) + "\\n" + ch + "z'")
			}
		}
		lexAndParse(rep("T;", n))
		lexAndParse(rep("T | count;\n", n) + "U | bogus")
		if n <= 12000 {
			// structural sizes
			valid("T" + rep(" | count", n))
			valid("T | where " + rep("(", n) + "a" + rep(")", n))
			valid("T | where " + rep("-", n) + "a > 0")
			valid("T | where " + rep("not(", n) + "a" + rep(")", n))
			valid("T | where a" + rep(" + a", n) + " > 0")
			valid("T | where a" + rep(" and a", n))
			var xs []string
			for i := 0; i < n; i++ {
				xs = append(xs, pick([]string{strconv.Itoa(i), "c" + strconv.Itoa(i), "-" + strconv.Itoa(i), "'v'"}))
			}
			valid("T | where x in (" + strings.Join(xs, ", ") + ")")
			prog("T | extend y = strcat(" + strings.Join(xs, ", ") + ")")
			var cs []string
			for i := 0; i < n; i++ {
				cs = append(cs, "c"+strconv.Itoa(i))
			}
			valid("T | project " + strings.Join(cs, ", "))
			prog("T | sort by " + strings.Join(cs, ", "))
			prog("T | summarize count() by " + strings.Join(cs, ", "))
			prog(rep("let v = 1; ", n) + "T | take v")
			// exactly n tokens: T | count | count … (2 per operator) padded by one `;`
			if n >= 3 {
				src := "T" + rep(" | count", (n-1)/2)
				if (n-1)%2 == 1 {
					src += ";"
				}
				prog(src)
				// a truncated clause at the end of an input of n tokens
				if n >= 8 {
					prog("T" + rep(" | count", (n-7)/2) + " | sort by a, b nulls")
				}
			}
		}
		if n <= 12000 {
			// groups of MIXED kinds nested n deep inside an outer group, followed by more of the outer construct
			for v := 0; v < 3; v++ {
				var open, close strings.Builder
				for i := 0; i < n; i++ {
					switch (i*7 + v*3) % 5 {
					case 0:
						open.WriteString("a[")
						close.WriteString("]")
					case 1:
						open.WriteString("f(")
						close.WriteString(")")
					default:
						open.WriteString("(")
						close.WriteString(")")
					}
				}
				// the closers in reverse order of the openers
				cs := close.String()
				rb := []byte(cs)
				for i, j := 0, len(rb)-1; i < j; i, j = i+1, j-1 {
					rb[i], rb[j] = rb[j], rb[i]
				}
				nest := open.String() + "x" + string(rb)
				valid("T | where f((a[" + nest + "]), b) | count")
				valid("T | join kind=inner (U | where (a[" + nest + "]) == 1 | count) on k | take 5")
				valid("T | where g(" + nest + ", c[" + nest + "]) and d")
			}
		}
		if n >= 64 {
			// one long LINE of about n and about 2n bytes in which every `;` but the last sits inside a string, a
			// quoted name or a comment (a splitter that works on windows or byte offsets meets them at any boundary)
			for _, total := range []int{n, 2 * n} {
				for _, unit := range []string{"'a;b', ", "`c;d`, ", "\"e;f;g\", "} {
					k := total / len(unit)
					lexAndParse("T | where s in (" + rep(unit, k) + "'z') ; U | count")
					lexAndParse("T | where s in (" + rep(unit, k) + "'z'); U | where t == 'p;q' // c ; d\n| count; V")
				}
				lexAndParse("T // " + rep("c;", total/2) + "\n| count; U")
			}
			// a source of n bytes and more that ends inside a number's exponent, and the same source continued
			pad := "T\n| where col > 0 and\n"
			body := rep(" col > 1 and\n", n/13+1)
			for _, tail := range []string{"1e", "1E+", "2.5e-", "0x", "1."} {
				p := pad + body + " d < " + tail
				emit("SCAN", hexs(p+"3"))
				emit("SCAN", hexs(p+"3 | take 5"))
				emit("SPLIT", hexs(p+"3; U"))
				emit("PARSE", hexs(p+"3"))
				emit("COMPILESEQ", hexs(p), hexs(p+"3"), "-")
			}
		}
		if n <= 400 {
			prog("T" + rep(" | project a | where a > 0", n))
			prog("T" + rep(" | as x | take 1", n))
		}
		if n <= 60 {
			prog("T" + rep(" | join (U) on k", n))
			src := "T"
			for i := 0; i < n; i++ {
				src = "T | join (" + src + ") on k"
			}
			prog(src)
		}
		// values
		prog("T | take " + strconv.Itoa(n))
		prog("T | top " + strconv.Itoa(n) + " by a")
		prog("T | where a == " + strconv.Itoa(n) + " or a == -" + strconv.Itoa(n) + " or a == " + strconv.Itoa(n) + ".0")
		emit("EVAL", hexs("T | sort by a | take "+strconv.Itoa(n)), strconv.Itoa(7*n))
		emit("NUM", hexs(strconv.Itoa(n)))
		// command line: n statements, n lines, a line of length n
		if n <= 3000 {
			emit("CLI", hexs(rep("T | count;\n", n)), "stdin")
			emit("CLI", hexs("T"+rep("\n", n)+"| count;\nU | bogus;\n"), "stdin")
			emit("CLI", hexs(rep("let v = 1;\n", n)+"T | take v\n"), "files:2")
		}
		emit("CLI", hexs("T | where a == '"+rep("x", n)+"';\nU | count;\n"), "stdin")
		if n <= 2000 {
			emit("HIST", hexs("T | where a > 0 | take 1"), "-", "2", strconv.Itoa(n))
			emit("HIST", hexs("T | where not(a, b)"), "-", "3", strconv.Itoa(n))
		}
	}
	for _, s := range m.Strs {
		if s == "" || len(s) > 32 || strings.ContainsAny(s, "\x00") {
			continue
		}
		for _, src := range []string{
			"T | where " + s + " == 1", s + " | count", "T | where " + s + "(a) > 0", "let " + s + " = 1; T | take " + s, "T | " + s, "T | " + s + " a",
			"T | where s == '" + strings.ReplaceAll(s, "'", "\\'") + "'", "T | as " + s, "T | join kind=" + s + " (U) on k", "T | render " + s, "T | project " + s + " = 1",
			"T | where a " + s + " b", "T | where a" + s + "b", s, "T | sort by a " + s, "T | where `" + strings.ReplaceAll(s, "`", "``") + "` == 1", "T //" + s + "\n| count",
			"T | extend " + s, "T | summarize " + s + " = count() by a", "T | where x." + s + " == 1",
		} {
			prog(src)
		}
		emit("CLI", hexs("T | where a == 1;\n"+s+"\nU | count;\n"), "stdin")
	}
}
