package main

import (
	"bytes"
	"context"
	"fmt"
	"os"
	"os/exec"
	"path/filepath"
	"strings"
	"time"
)

// CLI inputhex mode | EXIT code NERR n OUT outhex
// mode: stdin | file | files:<k> (input cut into k files at arbitrary byte positions) | outfile
// NERR = number of stderr lines that start with "pql: " minus the final summary line.
func init() {
	moreOps["CLI"] = runCLI
	caseSets["cli"] = genCLICases
}

func pqlBinary() string {
	if p := os.Getenv("VERIF_PQL_BIN"); p != "" {
		return p
	}
	exe, _ := os.Executable()
	return filepath.Join(filepath.Dir(exe), "pql")
}

func runCLI(c Case) string {
	input := unhex(c.Fields[0])
	mode := c.Fields[1]
	dir, err := os.MkdirTemp("", "verifcli")
	if err != nil {
		return "HARNESS-ERROR " + hexs(err.Error())
	}
	defer os.RemoveAll(dir)
	ctx, cancel := context.WithTimeout(context.Background(), 20*time.Second)
	defer cancel()
	var args []string
	var stdin []byte
	outPath := ""
	switch {
	case mode == "stdin":
		stdin = []byte(input)
	case mode == "file":
		p := filepath.Join(dir, "in.pql")
		os.WriteFile(p, []byte(input), 0o644)
		args = []string{p}
	case mode == "outfile", mode == "outfileP":
		stdin = []byte(input)
		outPath = filepath.Join(dir, "out.sql")
		args = []string{"-o", outPath}
		if mode == "outfileP" {
			// the output file already exists and holds MORE than this run will write (the result of an earlier,
			// longer run): what the tool leaves in the file is this run's output, nothing else
			os.WriteFile(outPath, []byte(strings.Repeat("SELECT * FROM \"earlier\" WHERE \"run\" > 1;\n\n", 400)), 0o644)
		}
	case strings.HasPrefix(mode, "filesM:"):
		// filesM:k  two pieces with k EMPTY files between them (bufio.Scanner gives up after 100
		// consecutive reads that return no data and no error: the multi-reader must not produce them)
		var k int
		fmt.Sscanf(mode[7:], "%d", &k)
		empty := filepath.Join(dir, "empty.pql")
		os.WriteFile(empty, nil, 0o644)
		cut := len(input) / 2
		if j := strings.Index(input, ";\n"); j >= 0 {
			cut = j + 2
		}
		p0 := filepath.Join(dir, "in0.pql")
		p1 := filepath.Join(dir, "in1.pql")
		os.WriteFile(p0, []byte(input[:cut]), 0o644)
		os.WriteFile(p1, []byte(input[cut:]), 0o644)
		args = append(args, p0)
		for i := 0; i < k; i++ {
			args = append(args, empty)
		}
		args = append(args, p1)
	case strings.HasPrefix(mode, "filesE:"), strings.HasPrefix(mode, "filesD:"):
		// filesE:k  k pieces with an empty file before, between and after them
		// filesD:k  k pieces, the middle one read from standard input through "-"
		var k int
		fmt.Sscanf(mode[7:], "%d", &k)
		if k < 2 {
			k = 2
		}
		empty := filepath.Join(dir, "empty.pql")
		os.WriteFile(empty, nil, 0o644)
		for i := 0; i < k; i++ {
			a, b := len(input)*i/k, len(input)*(i+1)/k
			if mode[5] == 'E' {
				args = append(args, empty)
			}
			if mode[5] == 'D' && i == k/2 {
				stdin = []byte(input[a:b])
				args = append(args, "-")
				continue
			}
			p := filepath.Join(dir, fmt.Sprintf("in%d.pql", i))
			os.WriteFile(p, []byte(input[a:b]), 0o644)
			args = append(args, p)
		}
		if mode[5] == 'E' {
			args = append(args, empty)
		}
	case strings.HasPrefix(mode, "filesX:"):
		// filesX:k:j  k pieces with a DIRECTORY named as an input before piece j (os.Open succeeds, every Read
		// fails): the input could not be read completely - what was read before it is processed, the rest is not,
		// and the exit status is non-zero
		var k, j int
		fmt.Sscanf(mode[7:], "%d:%d", &k, &j)
		bad := filepath.Join(dir, "unreadable.pql")
		os.Mkdir(bad, 0o755)
		for i := 0; i <= k; i++ {
			if i == j {
				args = append(args, bad)
			}
			if i == k {
				break
			}
			a, b := len(input)*i/k, len(input)*(i+1)/k
			p := filepath.Join(dir, fmt.Sprintf("in%d.pql", i))
			os.WriteFile(p, []byte(input[a:b]), 0o644)
			args = append(args, p)
		}
	case strings.HasPrefix(mode, "files:"):
		var k int
		fmt.Sscanf(mode, "files:%d", &k)
		if k < 2 {
			k = 2
		}
		// cut into k pieces at evenly spread positions
		for i := 0; i < k; i++ {
			a, b := len(input)*i/k, len(input)*(i+1)/k
			p := filepath.Join(dir, fmt.Sprintf("in%d.pql", i))
			os.WriteFile(p, []byte(input[a:b]), 0o644)
			args = append(args, p)
		}
	default:
		return "HARNESS-ERROR " + hexs("mode")
	}
	cmd := exec.CommandContext(ctx, pqlBinary(), args...)
	cmd.Stdin = bytes.NewReader(stdin)
	var stdout, stderr bytes.Buffer
	cmd.Stdout = &stdout
	cmd.Stderr = &stderr
	runErr := cmd.Run()
	if ctx.Err() != nil {
		return "HANG"
	}
	code := 0
	if runErr != nil {
		if ee, ok := runErr.(*exec.ExitError); ok {
			code = ee.ExitCode()
		} else {
			return "HARNESS-ERROR " + hexs(runErr.Error())
		}
	}
	out := stdout.Bytes()
	if outPath != "" {
		data, _ := os.ReadFile(outPath)
		out = append(data, out...)
	}
	nerr := 0
	for _, l := range strings.Split(stderr.String(), "\n") {
		if strings.HasPrefix(l, "pql: ") {
			nerr++
		}
	}
	if code != 0 && nerr > 0 {
		nerr-- // the final summary line printed by main
	}
	if strings.Contains(stderr.String(), "panic:") || strings.Contains(stderr.String(), "goroutine ") {
		return "PANIC " + hexs(stderr.String()[:min(200, stderr.Len())])
	}
	// ELINES: all non-empty lines on standard error, whatever their form (for the oracle "a failing statement is
	// reported": fewer lines than failures means one was dropped silently)
	elines := 0
	for _, l := range strings.Split(stderr.String(), "\n") {
		if strings.TrimSpace(l) != "" {
			elines++
		}
	}
	return fmt.Sprintf("EXIT %d NERR %d OUT %s ELINES %d", code, nerr, hexs(string(out)), elines)
}

var cliStatements = []string{
	"T | count", "T | where a == 1", "Users | take 5", "T | project a, b | sort by a", "T | take n", "T | where x > thr",
	"let n = 5", "let thr = 10", "let n = n + 1", "let s = 'x;y'", "let bad = zzz", "let q = `c`", "let", "let n 5",
	"T | bogus", "T | where", "T | where (a", "T | where a == 'open", "T ! U", "T | where f(b[=])", "T; U", "",
	" ", "// just a comment", "T // trailing comment", "T | where a == 'semi;colon'", "T | where `odd;name` == 1", "T | where a == \"q;\"",
	"T | join (U) on a", "T | take -n", "T | where not(a) in (1)",
}

func genScript() string {
	var sb strings.Builder
	n := 1 + rng.Intn(6)
	for i := 0; i < n; i++ {
		st := pick(cliStatements)
		if rng.Intn(4) == 0 {
			st = genProgram(nil, 1+rng.Intn(2), true)
		}
		// spread a statement over several lines sometimes
		if rng.Intn(3) == 0 {
			st = strings.ReplaceAll(st, " | ", pick([]string{"\n| ", " |\n", "\n  | "}))
		}
		sb.WriteString(st)
		last := i == n-1
		switch {
		case last && rng.Intn(2) == 0:
			// unterminated final statement
		default:
			sb.WriteString(";")
		}
		sb.WriteString(pick([]string{"\n", "\n", " ", "", "\n\n", " // c\n", "\r\n", "\n// comment line\n", "; \n"}))
	}
	if rng.Intn(6) == 0 {
		sb.WriteString(pick([]string{"\n", "", "   ", "// eof comment"}))
	}
	return sb.String()
}

func genCLICases(tier string, emit func(op string, fields ...string)) {
	n := 150
	if tier == "thorough" {
		n = 3000
	}
	corpus := []string{
		"", "\n", ";", ";;\n", "T", "T;", "T\n", "T;\n", "let x = 1;\nT | take x", "let x = 1;\nT | take x;\n", "let x = 1; T | take x",
		"let x = 1", "let x = 1\n", "let bad = y;\nT | take bad;\n", "T | bogus;\nT | count;\n", "T !; U\n", "T ! U;\nV;\n",
		"T | where a == ';'\n;\n", "T // c ; not a split\n| count;\n", "T |\nwhere a\n== 1;", "a;b;c", "a;;b", "T;\r\nU;\r\n",
		"let n = 1;\nlet n = n + 1;\nT | take n;\nlet n = 'x';\nT | take n", "T | where `a\n`;\nU;", "T | where 'x\n';U",
		"let t = 1; let l = t + 1; let t = 10; T | where a == l;\n", "let n = 10;\nlet n = n * 2;\nT | where b == n;\nT | count;\n",
		"let a = 1;\nlet a = bad;\nT | take a;\n", "T | count;\nlet x = 1\n", "T | bogus;\nU | count", "T | count;\nU | bogus", "letter | count;\nlet\tx = 2;\nT | take x;",
		"T | count; // trailing\n", "// only\n// comments\n", "let a = 1; let b = a; T | where x == b; U | take b",
	}
	modes := []string{"stdin", "stdin", "file", "files:2", "files:3", "outfile", "outfileP", "filesE:2", "filesD:3", "filesD:2", "files:7"}
	for _, s := range corpus {
		for _, m := range []string{"stdin", "file", "files:2", "filesE:2", "filesD:2", "outfileP"} {
			emit("CLI", hexs(s), m)
		}
	}
	for i := 0; i < n; i++ {
		emit("CLI", hexs(genScript()), pick(modes))
	}
	for _, s := range []string{"let n = 5;\nT | take n;\nT | where a > n | count\n", "T | count;\nU | count;\n", "T | count", "let x = 1;\nA | where a == x;\nB | where b == x\n", "T | bogus;\nU | count;\nV"} {
		for _, k := range []string{"filesX:0:0", "filesX:1:0", "filesX:1:1", "filesX:2:1", "filesX:3:0", "filesX:3:1", "filesX:3:2", "filesX:3:3"} {
			emit("CLI", hexs(s), k)
		}
	}
	for i := 0; i < n/5; i++ {
		k := 1 + rng.Intn(4)
		emit("CLI", hexs(genScript()), fmt.Sprintf("filesX:%d:%d", k, rng.Intn(k+1)))
	}
	for _, s := range []string{"let n = 5;\nT | take n;\nT | where a > n | count\n", "T | count;\nU | count;\n", "T | count"} {
		for _, k := range []string{"filesM:1", "filesM:99", "filesM:100", "filesM:150"} {
			emit("CLI", hexs(s), k)
		}
	}
	// very long lines around the 64 KiB scanner limit
	for _, l := range []int{65534, 65535, 65536, 65537, 70000} {
		long := "T | where a == '" + strings.Repeat("x", l-len("T | where a == ''")) + "'"
		emit("CLI", hexs("U | count;\n"+long+";\nV | count;\n"), "stdin")
		emit("CLI", hexs("U | count;\n"+long), "stdin")
		emit("CLI", hexs(long+";\n"), "file")
		// an unterminated statement is pending when reading stops: the read error is logged first, then the
		// pending statement is compiled (two errors when it is invalid)
		emit("CLI", hexs("U | count;\nV | where\n"+long), "stdin")
		emit("CLI", hexs("U | count;\nV | count\n"+long), "stdin")
		emit("CLI", hexs("let n = 1;\nV | take n\n"+long), "file")
	}
}
