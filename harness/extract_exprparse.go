package main

// Translator for the EXPRESSION parser of parser/parser.go: the precedence-climbing core and the
// infrastructure it stands on.
//
//	productions  expr, exprBinaryTrail, unaryExpr, primaryExpr, innerPrimaryExpr, exprList,
//	             qualifiedIdent, ident
//	cursor       next, prev, split, endSplit
//
// One unit per function (`Facts.exprParseIR`, keyed by the function name); `Facts.exprParseParams` lists the
// receiver and parameter names.  A unit is a flat list of items (an item is a list of strings); blocks
// are closed by ["end"], an `if` may have an ["else"] part.  Expressions are prefix-coded inside an item.
//
//	<e> ::= var v | nil | bool true|false | int N | str "text" | kind TokenX
//	      | field <e> F                      e.F
//	      | len <e>                          len(e)
//	      | add <e> <e> | sub <e> <e>        e + e / e - e
//	      | cmp eq|ne|lt|le|gt|ge <e> <e>    comparison
//	      | not <e> | and <e> <e> | or <e> <e>
//	      | call F n <e>*                    pure package function: operatorPrecedence, nullSpan, indexSpan,
//	                                         makeErrorOpaque, joinErrors, isNotFound
//	      | mcall M <e>                      pure method without arguments: AsQualified, endSplit, String
//	      | errnopos                         errors.New("…") / fmt.Errorf("…", pure arguments): an error without a position
//	      | perr nf|plain <e>                &parseError{source: p.source, span: e, err: …}; "nf": the inner error is
//	                                         a notFoundError{…}; the message arguments are checked to be pure and dropped
//	      | new T n (F <e>)*                 &T{F: e, …}
//	      | struct T n (F <e>)*              T{F: e, …}
//	      | list n <e>*                      []Expr{e, …}
//	      | append <e> <e>                   append(e, e)
//	      | index <e> <e>                    e[e]
//	      | slice <e> <lo> <hi>              e[lo:hi]; a missing bound is `none`
//
//	<lhs> ::= blank | var v | fieldof v F
//	<rhs> ::= <e> | pcall recv M n <e>*     recv.M(args): a method of *parser that moves the cursor
//
//	["assign", "def"|"set", n, <lhs>*, <rhs>]   lhs… := rhs / lhs… = rhs          (`x++` is `x = x + 1`)
//	["var", v, T]                               var v T
//	["do", <rhs>]                               an expression statement (p.prev())
//	["if", <e>] … [["else"] …] ["end"]          an expression switch becomes an if/else chain; an `if` with an
//	                                            initialiser is wrapped in ["block"] … ["end"]
//	["for", label, <e>] … ["end"]               for e { … }  (`for { … }` has the condition `bool true`)
//	["break", label] / ["continue"]             label "" = the innermost loop
//	["return", n, <e>*] / ["returncall", pcall] return e, …  /  return recv.M(args)
//	["panic"]                                   panic("…")
//
// Any other statement or expression shape is an error (the step fails alone, nothing is skipped).
// Model/ExprParseIR*.lean decodes and interprets the items; Props/C07ExprIR.lean proves the hand-written
// productions of Model/Parse.lean equal to the interpretation of what is regenerated here.

import (
	"fmt"
	"go/ast"
	"go/token"
	"strconv"
	"strings"
)

var xpUnits = []string{"next", "prev", "endSplit", "split", "ident", "qualifiedIdent", "innerPrimaryExpr", "primaryExpr", "unaryExpr", "exprBinaryTrail", "expr", "exprList"}

// methods of *parser that move the cursor (or build a sub-parser): only at statement level
var xpParserMethods = map[string]bool{
	"next": true, "prev": true, "split": true, "ident": true, "qualifiedIdent": true, "innerPrimaryExpr": true,
	"primaryExpr": true, "unaryExpr": true, "exprBinaryTrail": true, "expr": true, "exprList": true,
}

var xpPureFuncs = map[string]int{"operatorPrecedence": 1, "nullSpan": 0, "indexSpan": 1, "makeErrorOpaque": 1, "joinErrors": -1, "isNotFound": 1}
var xpPureMethods = map[string]bool{"AsQualified": true, "endSplit": true, "String": true}

type xpTrans struct {
	ex   *extractor
	unit string
	recv string
	// stack of enclosing breakable statements: "for" or "switch"
	breakable []string
}

func (t *xpTrans) errf(n ast.Node, format string, args ...interface{}) error {
	first := strings.SplitN(t.ex.src(n), "\n", 2)[0]
	return fmt.Errorf("exprParseIR %s: %s: %s", t.unit, fmt.Sprintf(format, args...), first)
}

func xpIsKindConst(name string) bool {
	return strings.HasPrefix(name, "Token") && len(name) > 5 && name[5] >= 'A' && name[5] <= 'Z'
}

// arguments of a message: a string literal, a variable, formatToken(p.source, v)
func (t *xpTrans) pureMessageArg(e ast.Expr) bool {
	if _, ok := strLit(e); ok {
		return true
	}
	if _, ok := identNameS(e); ok {
		return true
	}
	if c, ok := e.(*ast.CallExpr); ok && isIdent(c.Fun, "formatToken") && len(c.Args) == 2 {
		if t.ex.src(c.Args[0]) != t.recv+".source" {
			return false
		}
		_, ok := identNameS(c.Args[1])
		return ok
	}
	return false
}

// errors.New("…") / fmt.Errorf("…", pure args…)
func (t *xpTrans) isPlainError(e ast.Expr) bool {
	c, ok := e.(*ast.CallExpr)
	if !ok {
		return false
	}
	src := t.ex.src(c.Fun)
	if src != "errors.New" && src != "fmt.Errorf" {
		return false
	}
	if len(c.Args) == 0 {
		return false
	}
	if _, ok := strLit(c.Args[0]); !ok {
		return false
	}
	for _, a := range c.Args[1:] {
		if !t.pureMessageArg(a) {
			return false
		}
	}
	return true
}

func (t *xpTrans) fields(cl *ast.CompositeLit) ([]string, error) {
	out := []string{strconv.Itoa(len(cl.Elts))}
	seen := map[string]bool{}
	for _, el := range cl.Elts {
		kv, ok := el.(*ast.KeyValueExpr)
		if !ok {
			return nil, t.errf(cl, "composite literal without field names")
		}
		k, ok := kv.Key.(*ast.Ident)
		if !ok || seen[k.Name] {
			return nil, t.errf(cl, "composite literal key")
		}
		seen[k.Name] = true
		v, err := t.expr(kv.Value)
		if err != nil {
			return nil, err
		}
		out = append(out, k.Name)
		out = append(out, v...)
	}
	return out, nil
}

func (t *xpTrans) composite(cl *ast.CompositeLit, pointer bool) ([]string, error) {
	switch ty := cl.Type.(type) {
	case *ast.Ident:
		if ty.Name == "parseError" {
			if !pointer || len(cl.Elts) != 3 {
				return nil, t.errf(cl, "parseError literal shape")
			}
			vals := map[string]ast.Expr{}
			for _, el := range cl.Elts {
				kv, ok := el.(*ast.KeyValueExpr)
				if !ok {
					return nil, t.errf(cl, "parseError literal shape")
				}
				vals[t.ex.src(kv.Key)] = kv.Value
			}
			if vals["source"] == nil || vals["span"] == nil || vals["err"] == nil || t.ex.src(vals["source"]) != t.recv+".source" {
				return nil, t.errf(cl, "parseError literal fields")
			}
			kind := ""
			if t.isPlainError(vals["err"]) {
				kind = "plain"
			} else if inner, ok := vals["err"].(*ast.CompositeLit); ok && isIdent(inner.Type, "notFoundError") && len(inner.Elts) == 1 && t.isPlainError(inner.Elts[0]) {
				kind = "nf"
			} else {
				return nil, t.errf(cl, "parseError literal: inner error not of a known shape")
			}
			sp, err := t.expr(vals["span"])
			if err != nil {
				return nil, err
			}
			return append([]string{"perr", kind}, sp...), nil
		}
		f, err := t.fields(cl)
		if err != nil {
			return nil, err
		}
		if pointer {
			return append([]string{"new", ty.Name}, f...), nil
		}
		return append([]string{"struct", ty.Name}, f...), nil
	case *ast.ArrayType:
		if pointer || ty.Len != nil {
			return nil, t.errf(cl, "array literal")
		}
		out := []string{"list", strconv.Itoa(len(cl.Elts))}
		for _, el := range cl.Elts {
			if _, isKV := el.(*ast.KeyValueExpr); isKV {
				return nil, t.errf(cl, "keyed slice literal")
			}
			v, err := t.expr(el)
			if err != nil {
				return nil, err
			}
			out = append(out, v...)
		}
		return out, nil
	}
	return nil, t.errf(cl, "composite literal type")
}

func (t *xpTrans) expr(e ast.Expr) ([]string, error) {
	switch x := e.(type) {
	case *ast.ParenExpr:
		return t.expr(x.X)
	case *ast.Ident:
		switch {
		case x.Name == "nil":
			return []string{"nil"}, nil
		case x.Name == "true" || x.Name == "false":
			return []string{"bool", x.Name}, nil
		case x.Name == "_":
			return nil, t.errf(e, "blank identifier in an expression")
		case xpIsKindConst(x.Name):
			return []string{"kind", x.Name}, nil
		}
		return []string{"var", x.Name}, nil
	case *ast.BasicLit:
		switch x.Kind {
		case token.INT:
			return []string{"int", x.Value}, nil
		case token.STRING:
			s, err := strconv.Unquote(x.Value)
			if err != nil {
				return nil, t.errf(e, "string literal")
			}
			return []string{"str", s}, nil
		}
	case *ast.SelectorExpr:
		inner, err := t.expr(x.X)
		if err != nil {
			return nil, err
		}
		return append(append([]string{"field"}, inner...), x.Sel.Name), nil
	case *ast.CallExpr:
		if x.Ellipsis.IsValid() {
			return nil, t.errf(e, "variadic call")
		}
		if t.isPlainError(x) {
			return []string{"errnopos"}, nil
		}
		var args [][]string
		for _, a := range x.Args {
			v, err := t.expr(a)
			if err != nil {
				return nil, err
			}
			args = append(args, v)
		}
		flat := func(head ...string) []string {
			out := head
			for _, a := range args {
				out = append(out, a...)
			}
			return out
		}
		if id, ok := x.Fun.(*ast.Ident); ok {
			switch {
			case id.Name == "len" && len(args) == 1:
				return flat("len"), nil
			case id.Name == "append" && len(args) == 2:
				return flat("append"), nil
			}
			if n, ok := xpPureFuncs[id.Name]; ok && (n < 0 || n == len(args)) {
				return flat("call", id.Name, strconv.Itoa(len(args))), nil
			}
			return nil, t.errf(e, "call of a function that is not known to be pure")
		}
		if sel, ok := x.Fun.(*ast.SelectorExpr); ok && xpPureMethods[sel.Sel.Name] && len(args) == 0 {
			r, err := t.expr(sel.X)
			if err != nil {
				return nil, err
			}
			return append([]string{"mcall", sel.Sel.Name}, r...), nil
		}
		return nil, t.errf(e, "call not of a known shape (a cursor-moving method inside an expression?)")
	case *ast.UnaryExpr:
		switch x.Op {
		case token.NOT:
			v, err := t.expr(x.X)
			if err != nil {
				return nil, err
			}
			return append([]string{"not"}, v...), nil
		case token.AND:
			if cl, ok := x.X.(*ast.CompositeLit); ok {
				return t.composite(cl, true)
			}
		}
	case *ast.CompositeLit:
		return t.composite(x, false)
	case *ast.BinaryExpr:
		a, err := t.expr(x.X)
		if err != nil {
			return nil, err
		}
		b, err := t.expr(x.Y)
		if err != nil {
			return nil, err
		}
		var head []string
		switch x.Op {
		case token.EQL:
			head = []string{"cmp", "eq"}
		case token.NEQ:
			head = []string{"cmp", "ne"}
		case token.LSS:
			head = []string{"cmp", "lt"}
		case token.LEQ:
			head = []string{"cmp", "le"}
		case token.GTR:
			head = []string{"cmp", "gt"}
		case token.GEQ:
			head = []string{"cmp", "ge"}
		case token.LAND:
			head = []string{"and"}
		case token.LOR:
			head = []string{"or"}
		case token.ADD:
			head = []string{"add"}
		case token.SUB:
			head = []string{"sub"}
		default:
			return nil, t.errf(e, "binary operator")
		}
		return append(append(head, a...), b...), nil
	case *ast.IndexExpr:
		a, err := t.expr(x.X)
		if err != nil {
			return nil, err
		}
		b, err := t.expr(x.Index)
		if err != nil {
			return nil, err
		}
		return append(append([]string{"index"}, a...), b...), nil
	case *ast.SliceExpr:
		if x.Slice3 {
			return nil, t.errf(e, "3-index slice")
		}
		out := []string{"slice"}
		a, err := t.expr(x.X)
		if err != nil {
			return nil, err
		}
		out = append(out, a...)
		for _, b := range []ast.Expr{x.Low, x.High} {
			if b == nil {
				out = append(out, "none")
				continue
			}
			v, err := t.expr(b)
			if err != nil {
				return nil, err
			}
			out = append(out, v...)
		}
		return out, nil
	}
	return nil, t.errf(e, "expression not of a known shape (%T)", e)
}

// recv.M(args) with M a cursor-moving method of *parser and recv a variable
func (t *xpTrans) pcall(e ast.Expr) ([]string, bool, error) {
	c, ok := e.(*ast.CallExpr)
	if !ok {
		return nil, false, nil
	}
	sel, ok := c.Fun.(*ast.SelectorExpr)
	if !ok || !xpParserMethods[sel.Sel.Name] {
		return nil, false, nil
	}
	recv, ok := identNameS(sel.X)
	if !ok || c.Ellipsis.IsValid() {
		return nil, true, t.errf(e, "receiver of a parser method is not a variable")
	}
	out := []string{"pcall", recv, sel.Sel.Name, strconv.Itoa(len(c.Args))}
	for _, a := range c.Args {
		v, err := t.expr(a)
		if err != nil {
			return nil, true, err
		}
		out = append(out, v...)
	}
	return out, true, nil
}

func (t *xpTrans) rhs(e ast.Expr) ([]string, error) {
	if out, is, err := t.pcall(e); is {
		return out, err
	}
	return t.expr(e)
}

func (t *xpTrans) lhs(e ast.Expr) ([]string, error) {
	switch x := e.(type) {
	case *ast.Ident:
		if x.Name == "_" {
			return []string{"blank"}, nil
		}
		if x.Name == "nil" || xpIsKindConst(x.Name) {
			break
		}
		return []string{"var", x.Name}, nil
	case *ast.SelectorExpr:
		if v, ok := identNameS(x.X); ok {
			return []string{"fieldof", v, x.Sel.Name}, nil
		}
	}
	return nil, t.errf(e, "assignment target not of a known shape")
}

func (t *xpTrans) assign(s *ast.AssignStmt) (wItem, error) {
	mode := ""
	switch s.Tok {
	case token.DEFINE:
		mode = "def"
	case token.ASSIGN:
		mode = "set"
	default:
		return nil, t.errf(s, "assignment operator")
	}
	if len(s.Rhs) != 1 {
		return nil, t.errf(s, "assignment with several right-hand sides")
	}
	it := wItem{"assign", mode, strconv.Itoa(len(s.Lhs))}
	for _, l := range s.Lhs {
		v, err := t.lhs(l)
		if err != nil {
			return nil, err
		}
		if mode == "def" && v[0] == "fieldof" {
			return nil, t.errf(s, "definition of a field")
		}
		it = append(it, v...)
	}
	r, err := t.rhs(s.Rhs[0])
	if err != nil {
		return nil, err
	}
	if len(s.Lhs) > 1 && r[0] != "pcall" {
		return nil, t.errf(s, "several targets, but the right-hand side is not a parser method")
	}
	return append(it, r...), nil
}

func (t *xpTrans) simple(st ast.Stmt) (wItem, error) {
	switch s := st.(type) {
	case *ast.AssignStmt:
		return t.assign(s)
	case *ast.IncDecStmt:
		l, err := t.lhs(s.X)
		if err != nil {
			return nil, err
		}
		v, err := t.expr(s.X)
		if err != nil {
			return nil, err
		}
		op := "add"
		if s.Tok == token.DEC {
			op = "sub"
		}
		it := append(wItem{"assign", "set", "1"}, l...)
		it = append(it, op)
		it = append(it, v...)
		return append(it, "int", "1"), nil
	}
	return nil, t.errf(st, "simple statement not of a known shape")
}

func (t *xpTrans) block(list []ast.Stmt) ([]wItem, error) {
	var out []wItem
	for _, st := range list {
		its, err := t.stmt(st, "")
		if err != nil {
			return nil, err
		}
		out = append(out, its...)
	}
	return out, nil
}

func (t *xpTrans) stmt(st ast.Stmt, label string) ([]wItem, error) {
	if label != "" {
		if _, ok := st.(*ast.ForStmt); !ok {
			return nil, t.errf(st, "label on a statement that is not a loop")
		}
	}
	switch s := st.(type) {
	case *ast.AssignStmt, *ast.IncDecStmt:
		it, err := t.simple(st)
		if err != nil {
			return nil, err
		}
		return []wItem{it}, nil
	case *ast.DeclStmt:
		gd, ok := s.Decl.(*ast.GenDecl)
		if !ok || gd.Tok != token.VAR || len(gd.Specs) != 1 {
			return nil, t.errf(st, "declaration is not a single variable")
		}
		vs := gd.Specs[0].(*ast.ValueSpec)
		if len(vs.Names) != 1 || len(vs.Values) != 0 || vs.Type == nil {
			return nil, t.errf(st, "variable declaration shape")
		}
		return []wItem{{"var", vs.Names[0].Name, typeString(vs.Type)}}, nil
	case *ast.ExprStmt:
		call, ok := s.X.(*ast.CallExpr)
		if !ok {
			return nil, t.errf(st, "expression statement is not a call")
		}
		if isIdent(call.Fun, "panic") && len(call.Args) == 1 {
			if _, ok := strLit(call.Args[0]); ok {
				return []wItem{{"panic"}}, nil
			}
		}
		out, is, err := t.pcall(call)
		if err != nil {
			return nil, err
		}
		if !is {
			return nil, t.errf(st, "expression statement is not a call of a parser method")
		}
		return []wItem{append(wItem{"do"}, out...)}, nil
	case *ast.IfStmt:
		return t.ifStmt(s)
	case *ast.SwitchStmt:
		return t.switchStmt(s)
	case *ast.LabeledStmt:
		if label != "" {
			return nil, t.errf(st, "two labels")
		}
		return t.stmt(s.Stmt, s.Label.Name)
	case *ast.ForStmt:
		if s.Init != nil || s.Post != nil {
			return nil, t.errf(st, "loop with an initialiser or a post statement")
		}
		cond := []string{"bool", "true"}
		if s.Cond != nil {
			c, err := t.expr(s.Cond)
			if err != nil {
				return nil, err
			}
			cond = c
		}
		t.breakable = append(t.breakable, "for")
		body, err := t.block(s.Body.List)
		t.breakable = t.breakable[:len(t.breakable)-1]
		if err != nil {
			return nil, err
		}
		out := []wItem{append(wItem{"for", label}, cond...)}
		out = append(out, body...)
		return append(out, wItem{"end"}), nil
	case *ast.BranchStmt:
		switch s.Tok {
		case token.BREAK:
			if s.Label != nil {
				return []wItem{{"break", s.Label.Name}}, nil
			}
			if len(t.breakable) == 0 || t.breakable[len(t.breakable)-1] != "for" {
				return nil, t.errf(st, "unlabelled break whose innermost target is not a loop")
			}
			return []wItem{{"break", ""}}, nil
		case token.CONTINUE:
			if s.Label != nil {
				return nil, t.errf(st, "labelled continue")
			}
			inLoop := false
			for _, b := range t.breakable {
				inLoop = inLoop || b == "for"
			}
			if !inLoop {
				return nil, t.errf(st, "continue outside a loop")
			}
			return []wItem{{"continue"}}, nil
		}
		return nil, t.errf(st, "branch statement")
	case *ast.ReturnStmt:
		if len(s.Results) == 1 {
			if out, is, err := t.pcall(s.Results[0]); is {
				if err != nil {
					return nil, err
				}
				return []wItem{append(wItem{"returncall"}, out...)}, nil
			}
		}
		it := wItem{"return", strconv.Itoa(len(s.Results))}
		for _, r := range s.Results {
			v, err := t.expr(r)
			if err != nil {
				return nil, err
			}
			it = append(it, v...)
		}
		return []wItem{it}, nil
	case *ast.BlockStmt:
		body, err := t.block(s.List)
		if err != nil {
			return nil, err
		}
		out := append([]wItem{{"block"}}, body...)
		return append(out, wItem{"end"}), nil
	}
	return nil, t.errf(st, "statement not of a known shape (%T)", st)
}

func (t *xpTrans) ifStmt(s *ast.IfStmt) ([]wItem, error) {
	if s.Init != nil {
		init, err := t.simple(s.Init)
		if err != nil {
			return nil, err
		}
		inner := *s
		inner.Init = nil
		rest, err := t.ifStmt(&inner)
		if err != nil {
			return nil, err
		}
		out := []wItem{{"block"}, init}
		out = append(out, rest...)
		return append(out, wItem{"end"}), nil
	}
	c, err := t.expr(s.Cond)
	if err != nil {
		return nil, err
	}
	out := []wItem{append(wItem{"if"}, c...)}
	body, err := t.block(s.Body.List)
	if err != nil {
		return nil, err
	}
	out = append(out, body...)
	switch e := s.Else.(type) {
	case nil:
	case *ast.BlockStmt:
		eb, err := t.block(e.List)
		if err != nil {
			return nil, err
		}
		out = append(out, wItem{"else"})
		out = append(out, eb...)
	case *ast.IfStmt:
		eb, err := t.ifStmt(e)
		if err != nil {
			return nil, err
		}
		out = append(out, wItem{"else"})
		out = append(out, eb...)
	default:
		return nil, t.errf(s, "else part")
	}
	return append(out, wItem{"end"}), nil
}

// `switch tag { case a, b: …; default: … }` as an if/else chain, cases in source order (the tag is a pure
// expression, the labels are pure expressions; no fallthrough: a branch statement other than
// break/continue is not a known statement shape)
func (t *xpTrans) switchStmt(s *ast.SwitchStmt) ([]wItem, error) {
	if s.Init != nil || s.Tag == nil {
		return nil, t.errf(s, "switch shape")
	}
	tag, err := t.expr(s.Tag)
	if err != nil {
		return nil, err
	}
	t.breakable = append(t.breakable, "switch")
	defer func() { t.breakable = t.breakable[:len(t.breakable)-1] }()
	var out []wItem
	var deflt []ast.Stmt
	hasDefault := false
	depth := 0
	for i, c := range s.Body.List {
		cc := c.(*ast.CaseClause)
		if cc.List == nil {
			if hasDefault || i != len(s.Body.List)-1 {
				return nil, t.errf(s, "default clause that is not the last clause")
			}
			hasDefault = true
			deflt = cc.Body
			continue
		}
		var cond []string
		for i, e := range cc.List {
			v, err := t.expr(e)
			if err != nil {
				return nil, err
			}
			one := append(append([]string{"cmp", "eq"}, tag...), v...)
			if i == 0 {
				cond = one
			} else {
				cond = append(append([]string{"or"}, cond...), one...)
			}
		}
		body, err := t.block(cc.Body)
		if err != nil {
			return nil, err
		}
		if depth > 0 {
			out = append(out, wItem{"else"})
		}
		out = append(out, append(wItem{"if"}, cond...))
		out = append(out, body...)
		depth++
	}
	if depth == 0 {
		return nil, t.errf(s, "switch without cases")
	}
	if hasDefault {
		body, err := t.block(deflt)
		if err != nil {
			return nil, err
		}
		out = append(out, wItem{"else"})
		out = append(out, body...)
	}
	for ; depth > 0; depth-- {
		out = append(out, wItem{"end"})
	}
	return out, nil
}

func xpWriteUnits(sb *strings.Builder, units [][]wItem, names []string) {
	for i, k := range names {
		if i > 0 {
			sb.WriteString(",\n   ")
		}
		fmt.Fprintf(sb, "(%s, [", leanStr(k))
		for j, it := range units[i] {
			if j > 0 {
				sb.WriteString(", ")
			}
			sb.WriteString(leanStrList(it))
		}
		sb.WriteString("])")
	}
}

func (ex *extractor) exprParseIR(sb *strings.Builder) error {
	var units [][]wItem
	var params [][]string
	var results [][]string
	for _, name := range xpUnits {
		fd := ex.funcDecl("parser", "*parser", name)
		if fd == nil {
			return fmt.Errorf("exprParseIR: (*parser).%s not found", name)
		}
		if len(fd.Recv.List[0].Names) != 1 {
			return fmt.Errorf("exprParseIR %s: receiver without a name", name)
		}
		t := &xpTrans{ex: ex, unit: name, recv: fd.Recv.List[0].Names[0].Name}
		res := []string{}
		if fd.Type.Results != nil {
			for _, r := range fd.Type.Results.List {
				if len(r.Names) != 0 {
					return fmt.Errorf("exprParseIR %s: named results", name)
				}
				res = append(res, typeString(r.Type))
			}
		}
		results = append(results, res)
		its, err := t.block(fd.Body.List)
		if err != nil {
			return err
		}
		units = append(units, its)
		params = append(params, append([]string{t.recv}, paramNames(fd)...))
	}
	sb.WriteString("/-- parser/parser.go: the expression parser (`expr`, `exprBinaryTrail`, `unaryExpr`, `primaryExpr`,\n")
	sb.WriteString("    `innerPrimaryExpr`, `exprList`, `qualifiedIdent`, `ident`) and the cursor (`next`, `prev`, `split`,\n")
	sb.WriteString("    `endSplit`) as a flat prefix-coded IR (see harness/extract_exprparse.go) -/\n")
	sb.WriteString("def exprParseIR : List (String × List (List String)) :=\n  [")
	xpWriteUnits(sb, units, xpUnits)
	sb.WriteString("]\n\n")
	sb.WriteString("/-- receiver and parameter names of those functions, in order -/\n")
	sb.WriteString("def exprParseParams : List (String × List String) :=\n  [")
	for i, k := range xpUnits {
		if i > 0 {
			sb.WriteString(", ")
		}
		fmt.Fprintf(sb, "(%s, %s)", leanStr(k), leanStrList(params[i]))
	}
	sb.WriteString("]\n\n")
	sb.WriteString("/-- result types of those functions, in order -/\n")
	sb.WriteString("def exprParseResults : List (String × List String) :=\n  [")
	for i, k := range xpUnits {
		if i > 0 {
			sb.WriteString(", ")
		}
		fmt.Fprintf(sb, "(%s, %s)", leanStr(k), leanStrList(results[i]))
	}
	sb.WriteString("]\n\n")
	return nil
}
