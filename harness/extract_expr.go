package main

// Translator for the expression layer of pql.go and the front part of Compile:
//
//	writeExpression            the paren-unwrapping loop, the type switch with the QualifiedIdent / BasicLit /
//	                           UnaryExpr / default cases in full; the BinaryExpr / InExpr / IndexExpr / CallExpr
//	                           cases down to the statement ranges that extract_tmpl.go turns into templates
//	                           (those ranges become ["template", key])
//	writeExpressionMaybeParen, writeExpressionTight, hasJoinTerms        whole bodies
//	every write*Function       the arity guard, then ["template", writer]                 (units "writer:<name>")
//	(*CompileOptions).Compile  from the start up to and including the call of splitQueries (unit "Compile:pre";
//	                           the statement assembly after it is the unit "Compile" of writeIR)
//
// A unit is a flat list of items (an item is a list of strings); blocks are closed by ["end"], an `if`
// may have an ["else"] part, a switch is ["switch", …] (["case", label…] …)* [["default"] …] ["end"].  A
// path `root.F.G` is two strings (variable, field string) as in extract_write.go.  The string builder is
// always the variable `sb`.
//
//	["lit", text]                          sb.WriteString("text")
//	["str", root, fields]                  sb.WriteString(root.fields)
//	["qid", root, fields]                  quoteIdentifier(sb, root.fields)
//	["qstr", root, fields]                 quoteSQLString(sb, root.fields)
//	["fprintfS", pre, suf, root, fields]   fmt.Fprintf(sb, "pre%ssuf", root.fields)
//	["fprintfT", pre, suf, root, fields]   fmt.Fprintf(sb, "pre%Tsuf", root.fields)
//	["write", kind, root, fields]          if err := writeExpression|…MaybeParen|…Tight(ctx, sb, root.fields); err != nil { return [_,] err }
//	                                       kind = plain | maybe | tight
//	["retwrite", kind, root, fields]       return writeExpression|…(ctx, sb, root.fields)
//	["callknown", f, x]                    if err := f.write(ctx, sb, x); err != nil { return err }
//	["template", key]                      the statement range that is the template `key` of Facts.writeTemplates
//	["reterr", source, span, format]       return [_,] &compileError{source: …, span: …, err: fmt.Errorf("format", …)}
//	["errorf", format]                     return [_,] fmt.Errorf("format")
//	["return"]                             return nil  /  return (named results)
//	["visitret", "true"|"false"]           return true|false   (in the visitor closure of parser.Walk)
//	["continue"]
//	["def", v, root, fields]               v := root.fields
//	["defknown", v, root, fields]          v := initKnownFunctions()[root.fields]
//	["set", v, root, fields]               v = root.fields
//	["setbool", v, "true"|"false"]         v = true|false
//	["varnil", v, type]                    var v type          (a pointer type: nil)
//	["makemap", v]                         v := make(map[string]string)
//	["mapset", m, kroot, kfields, "path", root, fields]     m[kroot.kfields] = root.fields
//	["mapset", m, kroot, kfields, "sbstring", b]            m[kroot.kfields] = b.String()
//	["ctx", v, source, scope, mode]        v := &exprContext{source: source, scope: scope[, mode: mode]}
//	["newsb", v]                           v := new(strings.Builder)
//	["hasjoin", l, r, root, fields]        l, r := hasJoinTerms(root.fields)
//	["tryparse", v, source]                v, err := parser.Parse(source); if err != nil { return "", err }
//	["trysplit", v, source, scope, expr]   v, err := splitQueries(nil, source, scope, expr); if err != nil { return "", err }
//	["unparen", v, p, ok, T, F]            for { p, ok := v.(*parser.T); if !ok { break }; v = p.F }
//	["for", idx, elem, root, fields] … ["end"]          for idx, elem := range root.fields   (a slice)
//	["formap", k, v, root, fields] … ["end"]            for k, v := range root.fields        (a map)
//	["walk", n, root, fields] … ["end"]                 parser.Walk(root.fields, func(n parser.Node) bool { … })
//	["scope"] … ["end"]                    the scope of an `if init; cond` whose init is a separate item
//	["if", cond…] … [["else"] …] ["end"]
//	["switch", "type", bind, root, fields]              switch bind := root.fields.(type)      labels: type names
//	["switch", "tok", root, fields]                     switch root.fields                       labels: parser.Token…
//	["switch", "strc", root, fields]                    switch root.fields                       labels: string constants
//
// conditions (prefix-coded):
//
//	or a b | and a b | not a | var v | flag root fields | isnil root fields | notnil root fields |
//	leneq root fields N | lenne root fields N | gt0 i | tokis root fields K | streqc root fields C |
//	modeeq root fields M | modene root fields M |
//	typeis v T root fields   (`v, ok := root.fields.(*parser.T); ok`)
//	maphas v M root fields   (`v, ok := M[root.fields]; ok`; M a path printed as text: ctx.scope, builtinIdentifiers, binaryOps)
//
// Any other statement, expression or condition shape is an error: the step fails, nothing is skipped.
// Model/ExprIR.lean decodes and interprets the items; Props/C01WriteExprIR*.lean and Props/C06CompileIR.lean
// prove the hand-written model equal to the interpretation of what is regenerated here.

import (
	"fmt"
	"go/ast"
	"go/token"
	"sort"
	"strings"
)

type xeTmplRange struct {
	key string
	n   int
}

type xeTrans struct {
	w *wtrans
	// statement ranges that are templates of extract_tmpl.go: first statement → (key, length)
	tmpl map[ast.Stmt]xeTmplRange
	// inside the visitor closure of parser.Walk
	inVisitor bool
	// type of the receiver / parameters, for `range` over a map-typed field
	mapFields map[string]bool // "root.fields" that are maps
}

func (t *xeTrans) errf(n ast.Node, format string, args ...interface{}) error {
	first := strings.SplitN(t.w.ex.src(n), "\n", 2)[0]
	return fmt.Errorf("exprIR %s: %s: %s", t.w.unit, fmt.Sprintf(format, args...), first)
}

func xeOneLine(s string) string { return strings.Join(strings.Fields(s), " ") }

var xeModes = map[string]bool{"defaultExprMode": true, "joinExprMode": true, "letExprMode": true}
var xeStrConsts = map[string]bool{"leftJoinTableAlias": true, "rightJoinTableAlias": true}

// parser.TokenX
func xeTokName(e ast.Expr) (string, bool) {
	sel, ok := e.(*ast.SelectorExpr)
	if ok && isIdent(sel.X, "parser") && strings.HasPrefix(sel.Sel.Name, "Token") {
		return sel.Sel.Name, true
	}
	return "", false
}

// *parser.T
func xeStarParser(e ast.Expr) (string, bool) {
	star, ok := e.(*ast.StarExpr)
	if !ok {
		return "", false
	}
	sel, ok := star.X.(*ast.SelectorExpr)
	if !ok || !isIdent(sel.X, "parser") {
		return "", false
	}
	return sel.Sel.Name, true
}

func (t *xeTrans) cond(e ast.Expr) ([]string, error) {
	switch x := e.(type) {
	case *ast.ParenExpr:
		return t.cond(x.X)
	case *ast.Ident:
		if v, ok := identNameS(x); ok && v != "true" && v != "false" {
			return []string{"var", v}, nil
		}
	case *ast.UnaryExpr:
		if x.Op == token.NOT {
			a, err := t.cond(x.X)
			if err != nil {
				return nil, err
			}
			return append([]string{"not"}, a...), nil
		}
	case *ast.SelectorExpr:
		if r, f, ok := t.w.path(x); ok && f != "" {
			return []string{"flag", r, f}, nil
		}
	case *ast.BinaryExpr:
		switch x.Op {
		case token.LOR, token.LAND:
			a, err := t.cond(x.X)
			if err != nil {
				return nil, err
			}
			b, err := t.cond(x.Y)
			if err != nil {
				return nil, err
			}
			op := "or"
			if x.Op == token.LAND {
				op = "and"
			}
			return append(append([]string{op}, a...), b...), nil
		case token.GTR:
			if isIntLit(x.Y, "0") {
				if v, ok := identNameS(x.X); ok {
					return []string{"gt0", v}, nil
				}
			}
		case token.EQL, token.NEQ:
			eq := x.Op == token.EQL
			if isIdent(x.Y, "nil") {
				if r, f, ok := t.w.path(x.X); ok {
					if eq {
						return []string{"isnil", r, f}, nil
					}
					return []string{"notnil", r, f}, nil
				}
			}
			if r, f, ok := t.w.lenOf(x.X); ok {
				if lit, ok := x.Y.(*ast.BasicLit); ok && lit.Kind == token.INT {
					if eq {
						return []string{"leneq", r, f, lit.Value}, nil
					}
					return []string{"lenne", r, f, lit.Value}, nil
				}
			}
			if r, f, ok := t.w.path(x.X); ok && f != "" {
				if k, ok := xeTokName(x.Y); ok && eq {
					return []string{"tokis", r, f, k}, nil
				}
				if c, ok := identNameS(x.Y); ok {
					if xeStrConsts[c] && eq {
						return []string{"streqc", r, f, c}, nil
					}
					if xeModes[c] {
						if eq {
							return []string{"modeeq", r, f, c}, nil
						}
						return []string{"modene", r, f, c}, nil
					}
				}
			}
		}
	}
	return nil, t.errf(e, "condition not of a known shape")
}

// fmt.Errorf("format", …)
func xeErrorf(e ast.Expr) (string, bool) {
	call, ok := e.(*ast.CallExpr)
	if !ok || len(call.Args) < 1 {
		return "", false
	}
	sel, ok := call.Fun.(*ast.SelectorExpr)
	if !ok || !isIdent(sel.X, "fmt") || sel.Sel.Name != "Errorf" {
		return "", false
	}
	return strLit(call.Args[0])
}

var xeWriterKinds = map[string]string{"writeExpression": "plain", "writeExpressionMaybeParen": "maybe", "writeExpressionTight": "tight"}

// writeExpression…(ctx, sb, P)
func (t *xeTrans) writerCall(e ast.Expr) (kind, r, f string, ok bool) {
	call, isCall := e.(*ast.CallExpr)
	if !isCall || len(call.Args) != 3 || !isIdent(call.Args[0], "ctx") || !isIdent(call.Args[1], "sb") {
		return
	}
	fn, isId := call.Fun.(*ast.Ident)
	if !isId {
		return
	}
	kind, known := xeWriterKinds[fn.Name]
	if !known {
		return
	}
	r, f, ok = t.w.path(call.Args[2])
	return
}

// the last result of a return statement, when the others are zero values ("" / nil)
func (t *xeTrans) lastResult(s *ast.ReturnStmt) (ast.Expr, bool) {
	n := len(s.Results)
	if n == 0 {
		return nil, false
	}
	for _, r := range s.Results[:n-1] {
		if s, ok := strLit(r); ok && s == "" {
			continue
		}
		if isIdent(r, "nil") {
			continue
		}
		return nil, false
	}
	return s.Results[n-1], true
}

func (t *xeTrans) ret(s *ast.ReturnStmt) (wItem, error) {
	if t.inVisitor {
		if len(s.Results) == 1 && (isIdent(s.Results[0], "true") || isIdent(s.Results[0], "false")) {
			return wItem{"visitret", s.Results[0].(*ast.Ident).Name}, nil
		}
		return nil, t.errf(s, "return in the visitor is not a boolean constant")
	}
	if len(s.Results) == 0 {
		return wItem{"return"}, nil
	}
	last, ok := t.lastResult(s)
	if !ok {
		return nil, t.errf(s, "return not of a known shape")
	}
	if len(s.Results) == 1 && isIdent(last, "nil") {
		return wItem{"return"}, nil
	}
	if kind, r, f, ok := t.writerCall(last); ok && len(s.Results) == 1 {
		return wItem{"retwrite", kind, r, f}, nil
	}
	if f, ok := xeErrorf(last); ok {
		return wItem{"errorf", f}, nil
	}
	// &compileError{source: S, span: E, err: fmt.Errorf(…)}
	if u, ok := last.(*ast.UnaryExpr); ok && u.Op == token.AND {
		if cl, ok := u.X.(*ast.CompositeLit); ok && isIdent(cl.Type, "compileError") && len(cl.Elts) == 3 {
			vals := map[string]ast.Expr{}
			for _, el := range cl.Elts {
				kv, ok := el.(*ast.KeyValueExpr)
				if !ok {
					return nil, t.errf(s, "compileError literal without keys")
				}
				k, ok := kv.Key.(*ast.Ident)
				if !ok {
					return nil, t.errf(s, "compileError literal key")
				}
				vals[k.Name] = kv.Value
			}
			if vals["source"] != nil && vals["span"] != nil && vals["err"] != nil {
				if f, ok := xeErrorf(vals["err"]); ok {
					return wItem{"reterr", xeOneLine(t.w.ex.src(vals["source"])), xeOneLine(t.w.ex.src(vals["span"])), f}, nil
				}
			}
		}
	}
	return nil, t.errf(s, "return not of a known shape")
}

// `if err := F(…); err != nil { return [_,] err }`
func (t *xeTrans) errCall(ifs *ast.IfStmt) (wItem, bool) {
	as, ok := ifs.Init.(*ast.AssignStmt)
	if !ok || as.Tok != token.DEFINE || len(as.Lhs) != 1 || len(as.Rhs) != 1 || !isIdent(as.Lhs[0], "err") || ifs.Else != nil {
		return nil, false
	}
	if t.w.ex.src(ifs.Cond) != "err != nil" || len(ifs.Body.List) != 1 {
		return nil, false
	}
	ret, ok := ifs.Body.List[0].(*ast.ReturnStmt)
	if !ok {
		return nil, false
	}
	last, ok := t.lastResult(ret)
	if !ok || !isIdent(last, "err") {
		return nil, false
	}
	if kind, r, f, ok := t.writerCall(as.Rhs[0]); ok {
		return wItem{"write", kind, r, f}, true
	}
	call, ok := as.Rhs[0].(*ast.CallExpr)
	if !ok {
		return nil, false
	}
	if sel, ok := call.Fun.(*ast.SelectorExpr); ok && sel.Sel.Name == "write" && len(call.Args) == 3 &&
		isIdent(call.Args[0], "ctx") && isIdent(call.Args[1], "sb") {
		f, ok1 := identNameS(sel.X)
		x, ok2 := identNameS(call.Args[2])
		if ok1 && ok2 {
			return wItem{"callknown", f, x}, true
		}
	}
	return nil, false
}

// initKnownFunctions()[P]
func (t *xeTrans) knownLookup(e ast.Expr) (string, string, bool) {
	ix, ok := e.(*ast.IndexExpr)
	if !ok {
		return "", "", false
	}
	call, ok := ix.X.(*ast.CallExpr)
	if !ok || len(call.Args) != 0 || !isIdent(call.Fun, "initKnownFunctions") {
		return "", "", false
	}
	return t.w.path(ix.Index)
}

func (t *xeTrans) ifStmt(s *ast.IfStmt) ([]wItem, error) {
	if s.Init != nil {
		if it, ok := t.errCall(s); ok {
			return []wItem{it}, nil
		}
	}
	var pre []wItem
	var cond []string
	scoped := false
	if s.Init != nil {
		as, ok := s.Init.(*ast.AssignStmt)
		if !ok || as.Tok != token.DEFINE || len(as.Rhs) != 1 {
			return nil, t.errf(s, "if with an initialiser of an unknown shape")
		}
		switch {
		case len(as.Lhs) == 2 && isIdent(as.Lhs[1], "ok") && isIdent(s.Cond, "ok"):
			v, ok := as.Lhs[0].(*ast.Ident)
			if !ok {
				return nil, t.errf(s, "if initialiser target")
			}
			if ta, ok := as.Rhs[0].(*ast.TypeAssertExpr); ok && ta.Type != nil {
				// v, ok := P.(*parser.T); ok
				ty, ok1 := xeStarParser(ta.Type)
				r, f, ok2 := t.w.path(ta.X)
				if !ok1 || !ok2 {
					return nil, t.errf(s, "type assertion shape")
				}
				cond = []string{"typeis", v.Name, ty, r, f}
			} else if ix, ok := as.Rhs[0].(*ast.IndexExpr); ok {
				// v, ok := M[P]; ok
				mr, mf, ok1 := t.w.path(ix.X)
				r, f, ok2 := t.w.path(ix.Index)
				if !ok1 || !ok2 || v.Name == "_" {
					return nil, t.errf(s, "map lookup shape")
				}
				mname := mr
				if mf != "" {
					mname = mr + "." + mf
				}
				cond = []string{"maphas", v.Name, mname, r, f}
			} else {
				return nil, t.errf(s, "two-valued if initialiser is neither a type assertion nor a map lookup")
			}
		case len(as.Lhs) == 1:
			// f := initKnownFunctions()[P]; <cond>
			v, ok := identNameS(as.Lhs[0])
			r, f, ok2 := t.knownLookup(as.Rhs[0])
			if !ok || !ok2 {
				return nil, t.errf(s, "if initialiser is not a lookup in initKnownFunctions()")
			}
			pre = append(pre, wItem{"scope"}, wItem{"defknown", v, r, f})
			scoped = true
			c, err := t.cond(s.Cond)
			if err != nil {
				return nil, err
			}
			cond = c
		default:
			return nil, t.errf(s, "if with an initialiser of an unknown shape")
		}
	} else {
		c, err := t.cond(s.Cond)
		if err != nil {
			return nil, err
		}
		cond = c
	}
	out := append(pre, append(wItem{"if"}, cond...))
	body, err := t.stmts(s.Body.List)
	if err != nil {
		return nil, err
	}
	out = append(out, body...)
	switch e := s.Else.(type) {
	case nil:
	case *ast.BlockStmt:
		eb, err := t.stmts(e.List)
		if err != nil {
			return nil, err
		}
		out = append(out, wItem{"else"})
		out = append(out, eb...)
	case *ast.IfStmt:
		eb, err := t.ifStmt(e)
		if err != nil {
			return nil, err
		}
		out = append(out, wItem{"else"})
		out = append(out, eb...)
	default:
		return nil, t.errf(s, "else part")
	}
	out = append(out, wItem{"end"})
	if scoped {
		out = append(out, wItem{"end"})
	}
	return out, nil
}

func (t *xeTrans) callStmt(call *ast.CallExpr) ([]wItem, error) {
	if sel, ok := call.Fun.(*ast.SelectorExpr); ok && isIdent(sel.X, "sb") && sel.Sel.Name == "WriteString" && len(call.Args) == 1 {
		if s, ok := strLit(call.Args[0]); ok {
			return []wItem{{"lit", s}}, nil
		}
		if r, f, ok := t.w.path(call.Args[0]); ok {
			return []wItem{{"str", r, f}}, nil
		}
		return nil, t.errf(call, "WriteString argument")
	}
	if sel, ok := call.Fun.(*ast.SelectorExpr); ok && isIdent(sel.X, "fmt") && sel.Sel.Name == "Fprintf" {
		if len(call.Args) == 3 && isIdent(call.Args[0], "sb") {
			if f, ok := strLit(call.Args[1]); ok && strings.Count(f, "%") == 1 {
				if r, fl, ok := t.w.path(call.Args[2]); ok {
					for _, verb := range []string{"%s", "%T"} {
						if i := strings.Index(f, verb); i >= 0 {
							return []wItem{{"fprintf" + strings.ToUpper(verb[1:]), f[:i], f[i+2:], r, fl}}, nil
						}
					}
				}
			}
		}
		return nil, t.errf(call, "Fprintf not of the shape Fprintf(sb, \"…%%s|%%T…\", path)")
	}
	if id, ok := call.Fun.(*ast.Ident); ok && len(call.Args) == 2 && isIdent(call.Args[0], "sb") {
		if r, f, ok := t.w.path(call.Args[1]); ok {
			switch id.Name {
			case "quoteIdentifier":
				return []wItem{{"qid", r, f}}, nil
			case "quoteSQLString":
				return []wItem{{"qstr", r, f}}, nil
			}
		}
	}
	// parser.Walk(P, func(n parser.Node) bool { … })
	if sel, ok := call.Fun.(*ast.SelectorExpr); ok && isIdent(sel.X, "parser") && sel.Sel.Name == "Walk" && len(call.Args) == 2 {
		r, f, ok1 := t.w.path(call.Args[0])
		fl, ok2 := call.Args[1].(*ast.FuncLit)
		if !ok1 || !ok2 || t.inVisitor {
			return nil, t.errf(call, "Walk call shape")
		}
		ps := fl.Type.Params.List
		if len(ps) != 1 || len(ps[0].Names) != 1 || t.w.ex.src(ps[0].Type) != "parser.Node" ||
			fl.Type.Results == nil || len(fl.Type.Results.List) != 1 || t.w.ex.src(fl.Type.Results.List[0].Type) != "bool" {
			return nil, t.errf(call, "visitor signature")
		}
		n := len(fl.Body.List)
		if n == 0 {
			return nil, t.errf(call, "empty visitor")
		}
		if _, ok := fl.Body.List[n-1].(*ast.ReturnStmt); !ok {
			return nil, t.errf(call, "visitor does not end in a return")
		}
		t.inVisitor = true
		body, err := t.stmts(fl.Body.List)
		t.inVisitor = false
		if err != nil {
			return nil, err
		}
		out := []wItem{{"walk", ps[0].Names[0].Name, r, f}}
		out = append(out, body...)
		return append(out, wItem{"end"}), nil
	}
	return nil, t.errf(call, "call not of a known shape")
}

// is the next statement `if err != nil { return [zero,] err }` ?
func (t *xeTrans) isErrReturn(st ast.Stmt) bool {
	ifs, ok := st.(*ast.IfStmt)
	if !ok || ifs.Init != nil || ifs.Else != nil || t.w.ex.src(ifs.Cond) != "err != nil" || len(ifs.Body.List) != 1 {
		return false
	}
	ret, ok := ifs.Body.List[0].(*ast.ReturnStmt)
	if !ok {
		return false
	}
	last, ok := t.lastResult(ret)
	return ok && isIdent(last, "err")
}

// an assignment; `used` = how many statements of `rest` (starting with the assignment) it consumes
func (t *xeTrans) assign(as *ast.AssignStmt, rest []ast.Stmt) (wItem, int, error) {
	bad := func(msg string) (wItem, int, error) { return nil, 0, t.errf(as, msg) }
	if len(as.Rhs) != 1 {
		return bad("assignment shape")
	}
	rhs := as.Rhs[0]
	if len(as.Lhs) == 2 {
		a, ok1 := identNameS(as.Lhs[0])
		b, ok2 := as.Lhs[1].(*ast.Ident)
		call, ok3 := rhs.(*ast.CallExpr)
		if !ok1 || !ok2 || !ok3 || as.Tok != token.DEFINE {
			return bad("two-valued assignment shape")
		}
		// l, r := hasJoinTerms(P)
		if isIdent(call.Fun, "hasJoinTerms") && len(call.Args) == 1 && b.Name != "_" && b.Name != "err" {
			if r, f, ok := t.w.path(call.Args[0]); ok {
				return wItem{"hasjoin", a, b.Name, r, f}, 1, nil
			}
		}
		if b.Name == "err" && len(rest) > 1 && t.isErrReturn(rest[1]) {
			// v, err := parser.Parse(source); if err != nil { return "", err }
			if sel, ok := call.Fun.(*ast.SelectorExpr); ok && isIdent(sel.X, "parser") && sel.Sel.Name == "Parse" && len(call.Args) == 1 {
				if s, ok := identNameS(call.Args[0]); ok {
					return wItem{"tryparse", a, s}, 2, nil
				}
			}
			// v, err := splitQueries(nil, source, scope, expr); if err != nil { return "", err }
			if isIdent(call.Fun, "splitQueries") && len(call.Args) == 4 && isIdent(call.Args[0], "nil") {
				s, ok1 := identNameS(call.Args[1])
				c, ok2 := identNameS(call.Args[2])
				e, ok3 := identNameS(call.Args[3])
				if ok1 && ok2 && ok3 {
					return wItem{"trysplit", a, s, c, e}, 2, nil
				}
			}
		}
		return bad("two-valued assignment not of a known shape")
	}
	if len(as.Lhs) != 1 {
		return bad("assignment shape")
	}
	// m[K] = P | b.String()
	if ix, ok := as.Lhs[0].(*ast.IndexExpr); ok && as.Tok == token.ASSIGN {
		m, ok1 := identNameS(ix.X)
		kr, kf, ok2 := t.w.path(ix.Index)
		if !ok1 || !ok2 {
			return bad("map assignment target")
		}
		if r, f, ok := t.w.path(rhs); ok {
			return wItem{"mapset", m, kr, kf, "path", r, f}, 1, nil
		}
		if call, ok := rhs.(*ast.CallExpr); ok && len(call.Args) == 0 {
			if sel, ok := call.Fun.(*ast.SelectorExpr); ok && sel.Sel.Name == "String" {
				if b, ok := identNameS(sel.X); ok {
					return wItem{"mapset", m, kr, kf, "sbstring", b}, 1, nil
				}
			}
		}
		return bad("map assignment value")
	}
	v, ok := identNameS(as.Lhs[0])
	if !ok {
		return bad("assignment target is not a variable")
	}
	if as.Tok == token.ASSIGN {
		if isIdent(rhs, "true") || isIdent(rhs, "false") {
			return wItem{"setbool", v, rhs.(*ast.Ident).Name}, 1, nil
		}
		if r, f, ok := t.w.path(rhs); ok {
			return wItem{"set", v, r, f}, 1, nil
		}
		return bad("assigned value is not a path")
	}
	if as.Tok != token.DEFINE {
		return bad("assignment operator")
	}
	if r, f, ok := t.w.path(rhs); ok {
		return wItem{"def", v, r, f}, 1, nil
	}
	if call, ok := rhs.(*ast.CallExpr); ok {
		// make(map[string]string)
		if isIdent(call.Fun, "make") && len(call.Args) == 1 && t.w.ex.src(call.Args[0]) == "map[string]string" {
			return wItem{"makemap", v}, 1, nil
		}
		// new(strings.Builder)
		if isIdent(call.Fun, "new") && len(call.Args) == 1 && t.w.ex.src(call.Args[0]) == "strings.Builder" {
			if v != "sb" {
				return bad("a string builder that is not called sb")
			}
			return wItem{"newsb", v}, 1, nil
		}
	}
	// &exprContext{source: S, scope: C[, mode: M]}
	if u, ok := rhs.(*ast.UnaryExpr); ok && u.Op == token.AND {
		if cl, ok := u.X.(*ast.CompositeLit); ok && isIdent(cl.Type, "exprContext") {
			vals := map[string]string{}
			for _, el := range cl.Elts {
				kv, ok := el.(*ast.KeyValueExpr)
				if !ok {
					return bad("exprContext literal without keys")
				}
				k, ok1 := kv.Key.(*ast.Ident)
				val, ok2 := kv.Value.(*ast.Ident)
				if !ok1 || !ok2 || (k.Name != "source" && k.Name != "scope" && k.Name != "mode") {
					return bad("exprContext literal field")
				}
				vals[k.Name] = val.Name
			}
			return wItem{"ctx", v, vals["source"], vals["scope"], vals["mode"]}, 1, nil
		}
	}
	return bad("definition not of a known shape")
}

// for { p, ok := v.(*parser.T); if !ok { break }; v = p.F }
func (t *xeTrans) unparenLoop(s *ast.ForStmt) (wItem, bool) {
	if s.Init != nil || s.Cond != nil || s.Post != nil || len(s.Body.List) != 3 {
		return nil, false
	}
	as, ok := s.Body.List[0].(*ast.AssignStmt)
	if !ok || as.Tok != token.DEFINE || len(as.Lhs) != 2 || len(as.Rhs) != 1 {
		return nil, false
	}
	p, ok1 := identNameS(as.Lhs[0])
	okv, ok2 := identNameS(as.Lhs[1])
	ta, ok3 := as.Rhs[0].(*ast.TypeAssertExpr)
	if !ok1 || !ok2 || !ok3 || ta.Type == nil {
		return nil, false
	}
	ty, ok1 := xeStarParser(ta.Type)
	v, ok2 := identNameS(ta.X)
	if !ok1 || !ok2 {
		return nil, false
	}
	ifs, ok := s.Body.List[1].(*ast.IfStmt)
	if !ok || ifs.Init != nil || ifs.Else != nil || t.w.ex.src(ifs.Cond) != "!"+okv || len(ifs.Body.List) != 1 {
		return nil, false
	}
	br, ok := ifs.Body.List[0].(*ast.BranchStmt)
	if !ok || br.Tok != token.BREAK || br.Label != nil {
		return nil, false
	}
	set, ok := s.Body.List[2].(*ast.AssignStmt)
	if !ok || set.Tok != token.ASSIGN || len(set.Lhs) != 1 || len(set.Rhs) != 1 || !isIdent(set.Lhs[0], v) {
		return nil, false
	}
	sel, ok := set.Rhs[0].(*ast.SelectorExpr)
	if !ok || !isIdent(sel.X, p) {
		return nil, false
	}
	return wItem{"unparen", v, p, okv, ty, sel.Sel.Name}, true
}

func (t *xeTrans) caseBodies(list []ast.Stmt, label func(*ast.CaseClause) ([]string, error)) ([]wItem, error) {
	var out []wItem
	for i, c := range list {
		cc := c.(*ast.CaseClause)
		if cc.List == nil {
			if i != len(list)-1 {
				return nil, t.errf(cc, "default is not the last case")
			}
			out = append(out, wItem{"default"})
		} else {
			ls, err := label(cc)
			if err != nil {
				return nil, err
			}
			out = append(out, append(wItem{"case"}, ls...))
		}
		for _, st := range cc.Body {
			if br, ok := st.(*ast.BranchStmt); ok && (br.Tok == token.BREAK || br.Tok == token.FALLTHROUGH) {
				return nil, t.errf(st, "break / fallthrough in a switch")
			}
		}
		body, err := t.stmts(cc.Body)
		if err != nil {
			return nil, err
		}
		out = append(out, body...)
	}
	return append(out, wItem{"end"}), nil
}

func (t *xeTrans) stmts(list []ast.Stmt) ([]wItem, error) {
	var out []wItem
	for i := 0; i < len(list); i++ {
		st := list[i]
		if tr, ok := t.tmpl[st]; ok {
			if i+tr.n > len(list) {
				return nil, t.errf(st, "template range")
			}
			rng := list[i : i+tr.n]
			if _, err := t.w.ex.template(rng, tr.key); err != nil {
				return nil, err
			}
			out = append(out, wItem{"template", tr.key})
			if r, ok := rng[len(rng)-1].(*ast.ReturnStmt); ok {
				it, err := t.ret(r)
				if err != nil {
					return nil, err
				}
				out = append(out, it)
			}
			i += tr.n - 1
			continue
		}
		switch s := st.(type) {
		case *ast.ExprStmt:
			call, ok := s.X.(*ast.CallExpr)
			if !ok {
				return nil, t.errf(st, "expression statement is not a call")
			}
			its, err := t.callStmt(call)
			if err != nil {
				return nil, err
			}
			out = append(out, its...)
		case *ast.AssignStmt:
			it, used, err := t.assign(s, list[i:])
			if err != nil {
				return nil, err
			}
			out = append(out, it)
			i += used - 1
		case *ast.DeclStmt:
			gd, ok := s.Decl.(*ast.GenDecl)
			if !ok || gd.Tok != token.VAR || len(gd.Specs) != 1 {
				return nil, t.errf(st, "declaration is not a single variable")
			}
			vs := gd.Specs[0].(*ast.ValueSpec)
			if len(vs.Names) != 1 || len(vs.Values) != 0 || vs.Type == nil {
				return nil, t.errf(st, "variable declaration shape")
			}
			if _, ok := vs.Type.(*ast.StarExpr); !ok {
				return nil, t.errf(st, "declared variable is not a pointer")
			}
			out = append(out, wItem{"varnil", vs.Names[0].Name, t.w.ex.src(vs.Type)})
		case *ast.IfStmt:
			its, err := t.ifStmt(s)
			if err != nil {
				return nil, err
			}
			out = append(out, its...)
		case *ast.ForStmt:
			it, ok := t.unparenLoop(s)
			if !ok {
				return nil, t.errf(st, "for loop that is not the paren-unwrapping loop")
			}
			out = append(out, it)
		case *ast.RangeStmt:
			if s.Tok != token.DEFINE || s.Value == nil || s.Key == nil {
				return nil, t.errf(st, "range loop without key and value variables")
			}
			k, ok1 := s.Key.(*ast.Ident)
			v, ok2 := s.Value.(*ast.Ident)
			r, f, ok3 := t.w.path(s.X)
			if !ok1 || !ok2 || !ok3 || v.Name == "_" {
				return nil, t.errf(st, "range loop shape")
			}
			body, err := t.stmts(s.Body.List)
			if err != nil {
				return nil, err
			}
			kw := "for"
			if t.mapFields[joinField(r, f)] {
				kw = "formap"
				if k.Name == "_" {
					return nil, t.errf(st, "range over a map without a key variable")
				}
			}
			out = append(out, wItem{kw, k.Name, v.Name, r, f})
			out = append(out, body...)
			out = append(out, wItem{"end"})
		case *ast.TypeSwitchStmt:
			as, ok := s.Assign.(*ast.AssignStmt)
			if !ok || s.Init != nil || len(as.Lhs) != 1 || len(as.Rhs) != 1 {
				return nil, t.errf(st, "type switch does not bind a variable")
			}
			ta, ok := as.Rhs[0].(*ast.TypeAssertExpr)
			if !ok || ta.Type != nil {
				return nil, t.errf(st, "type switch subject")
			}
			r, f, ok := t.w.path(ta.X)
			if !ok {
				return nil, t.errf(st, "type switch subject is not a path")
			}
			out = append(out, wItem{"switch", "type", selName(as.Lhs[0]), r, f})
			body, err := t.caseBodies(s.Body.List, func(cc *ast.CaseClause) ([]string, error) {
				var ls []string
				for _, e := range cc.List {
					ty, ok := xeStarParser(e)
					if !ok {
						return nil, t.errf(cc, "type switch label is not *parser.T")
					}
					ls = append(ls, ty)
				}
				return ls, nil
			})
			if err != nil {
				return nil, err
			}
			out = append(out, body...)
		case *ast.SwitchStmt:
			if s.Init != nil || s.Tag == nil {
				return nil, t.errf(st, "switch shape")
			}
			r, f, ok := t.w.path(s.Tag)
			if !ok || f == "" {
				return nil, t.errf(st, "switch tag is not a field path")
			}
			kind := ""
			body, err := t.caseBodies(s.Body.List, func(cc *ast.CaseClause) ([]string, error) {
				var ls []string
				for _, e := range cc.List {
					k := ""
					name := ""
					if tn, ok := xeTokName(e); ok {
						k, name = "tok", tn
					} else if c, ok := identNameS(e); ok && xeStrConsts[c] {
						k, name = "strc", c
					} else {
						return nil, t.errf(cc, "switch label is neither a token kind nor a known string constant")
					}
					if kind != "" && kind != k {
						return nil, t.errf(cc, "switch labels of two kinds")
					}
					kind = k
					ls = append(ls, name)
				}
				return ls, nil
			})
			if err != nil {
				return nil, err
			}
			if kind == "" {
				return nil, t.errf(st, "switch without labelled cases")
			}
			out = append(out, wItem{"switch", kind, r, f})
			out = append(out, body...)
		case *ast.ReturnStmt:
			it, err := t.ret(s)
			if err != nil {
				return nil, err
			}
			out = append(out, it)
		case *ast.BranchStmt:
			if s.Tok != token.CONTINUE || s.Label != nil {
				return nil, t.errf(st, "branch statement other than continue")
			}
			out = append(out, wItem{"continue"})
		default:
			return nil, t.errf(st, "statement not of a known shape (%T)", st)
		}
	}
	return out, nil
}

// the statement ranges of writeExpression that extract_tmpl.go translates (same navigation as there)
func (ex *extractor) xeWriteExpressionTemplates(we *ast.FuncDecl, tm map[ast.Stmt]xeTmplRange) error {
	var ts *ast.TypeSwitchStmt
	for _, st := range we.Body.List {
		if t, ok := st.(*ast.TypeSwitchStmt); ok {
			ts = t
		}
	}
	if ts == nil {
		return fmt.Errorf("exprIR writeExpression: no type switch at top level")
	}
	reg := func(list []ast.Stmt, key string) error {
		if len(list) == 0 {
			return fmt.Errorf("exprIR writeExpression: empty template range %s", key)
		}
		tm[list[0]] = xeTmplRange{key, len(list)}
		return nil
	}
	for _, c := range ts.Body.List {
		cc := c.(*ast.CaseClause)
		names := caseNames(cc)
		if cc.List == nil || len(names) != 1 {
			continue
		}
		switch names[0] {
		case "InExpr", "IndexExpr":
			if err := reg(cc.Body, names[0]); err != nil {
				return err
			}
		case "CallExpr":
			if len(cc.Body) != 1 {
				return fmt.Errorf("exprIR CallExpr case: shape")
			}
			ifs, ok := cc.Body[0].(*ast.IfStmt)
			if !ok {
				return fmt.Errorf("exprIR CallExpr case: not an if")
			}
			els, ok := ifs.Else.(*ast.BlockStmt)
			if !ok {
				return fmt.Errorf("exprIR CallExpr case: else branch")
			}
			if err := reg(els.List, "CallExpr:default"); err != nil {
				return err
			}
		case "BinaryExpr":
			if len(cc.Body) != 1 {
				return fmt.Errorf("exprIR BinaryExpr case: shape")
			}
			sw, ok := cc.Body[0].(*ast.SwitchStmt)
			if !ok {
				return fmt.Errorf("exprIR BinaryExpr case: not a switch")
			}
			for _, oc := range sw.Body.List {
				occ := oc.(*ast.CaseClause)
				if occ.List == nil {
					if len(occ.Body) != 1 {
						return fmt.Errorf("exprIR BinaryExpr default: shape")
					}
					ifs, ok := occ.Body[0].(*ast.IfStmt)
					if !ok {
						return fmt.Errorf("exprIR BinaryExpr default: not an if")
					}
					if err := reg(ifs.Body.List, "BinaryExpr:default"); err != nil {
						return err
					}
					continue
				}
				if len(occ.List) != 1 {
					return fmt.Errorf("exprIR BinaryExpr: multi-valued case")
				}
				op := selName(occ.List[0])
				body := occ.Body
				if op == "TokenEq" {
					if len(body) == 0 {
						return fmt.Errorf("exprIR BinaryExpr TokenEq: empty")
					}
					ifs, ok := body[0].(*ast.IfStmt)
					if !ok || len(ifs.Body.List) != 3 {
						return fmt.Errorf("exprIR BinaryExpr TokenEq: join-mode guard shape")
					}
					in, ok := ifs.Body.List[2].(*ast.IfStmt)
					if !ok {
						return fmt.Errorf("exprIR BinaryExpr TokenEq: both-sides condition")
					}
					if err := reg(in.Body.List, "BinaryExpr:TokenEq:join"); err != nil {
						return err
					}
					body = body[1:]
				}
				if err := reg(body, "BinaryExpr:"+op); err != nil {
					return err
				}
			}
		}
	}
	return nil
}

func (ex *extractor) xeStructFieldIsMap(typeName, field string) bool {
	for _, f := range ex.pkgs["pql"] {
		for _, d := range f.Decls {
			gd, ok := d.(*ast.GenDecl)
			if !ok || gd.Tok != token.TYPE {
				continue
			}
			for _, s := range gd.Specs {
				tsp := s.(*ast.TypeSpec)
				st, ok := tsp.Type.(*ast.StructType)
				if !ok || tsp.Name.Name != typeName {
					continue
				}
				for _, fl := range st.Fields.List {
					for _, n := range fl.Names {
						if n.Name == field {
							_, isMap := fl.Type.(*ast.MapType)
							return isMap
						}
					}
				}
			}
		}
	}
	return false
}

func xeResultNames(fd *ast.FuncDecl) []string {
	var out []string
	if fd.Type.Results == nil {
		return out
	}
	for _, f := range fd.Type.Results.List {
		for _, n := range f.Names {
			out = append(out, n.Name)
		}
	}
	return out
}

func (ex *extractor) exprIR(sb *strings.Builder) error {
	units := map[string][]wItem{}
	type fnrow struct {
		name            string
		params, results []string
	}
	var fns []fnrow

	// the three writers and hasJoinTerms: whole bodies
	for _, name := range []string{"writeExpression", "writeExpressionMaybeParen", "writeExpressionTight", "hasJoinTerms"} {
		fd := ex.funcDecl("pql", "", name)
		if fd == nil {
			return fmt.Errorf("exprIR: %s not found", name)
		}
		t := &xeTrans{w: &wtrans{ex: ex, unit: name}, tmpl: map[ast.Stmt]xeTmplRange{}}
		if name == "writeExpression" {
			if err := ex.xeWriteExpressionTemplates(fd, t.tmpl); err != nil {
				return err
			}
		}
		its, err := t.stmts(fd.Body.List)
		if err != nil {
			return err
		}
		units[name] = its
		fns = append(fns, fnrow{name, paramNames(fd), xeResultNames(fd)})
	}

	// the write*Function rewrites: arity guard, then the template
	kf := ex.funcDecl("pql", "", "initKnownFunctions")
	if kf == nil {
		return fmt.Errorf("exprIR: initKnownFunctions not found")
	}
	writers := map[string]bool{}
	ast.Inspect(kf, func(n ast.Node) bool {
		if kv, ok := n.(*ast.KeyValueExpr); ok && selName(kv.Key) == "write" {
			writers[selName(kv.Value)] = true
		}
		return true
	})
	var wnames []string
	for w := range writers {
		wnames = append(wnames, w)
	}
	sort.Strings(wnames)
	for _, w := range wnames {
		fd := ex.funcDecl("pql", "", w)
		if fd == nil || len(fd.Body.List) < 2 {
			return fmt.Errorf("exprIR: writer %s not found or too short", w)
		}
		t := &xeTrans{w: &wtrans{ex: ex, unit: "writer:" + w}, tmpl: map[ast.Stmt]xeTmplRange{}}
		t.tmpl[fd.Body.List[1]] = xeTmplRange{w, len(fd.Body.List) - 1}
		its, err := t.stmts(fd.Body.List)
		if err != nil {
			return err
		}
		units["writer:"+w] = its
		fns = append(fns, fnrow{w, paramNames(fd), xeResultNames(fd)})
	}

	// Compile: from the start up to and including the call of splitQueries
	cfd := ex.funcDecl("pql", "*CompileOptions", "Compile")
	if cfd == nil {
		return fmt.Errorf("exprIR: (*CompileOptions).Compile not found")
	}
	end := -1
	for i, st := range cfd.Body.List {
		if strings.HasPrefix(ex.src(st), "subqueries, err := splitQueries(") {
			end = i
		}
	}
	if end < 0 || end+2 >= len(cfd.Body.List) || ex.src(cfd.Body.List[end+2]) != "sb := new(strings.Builder)" {
		return fmt.Errorf("exprIR Compile: `subqueries, err := splitQueries(…)`, its error check and then `sb := new(strings.Builder)` not found at the top level")
	}
	recv := ""
	if cfd.Recv != nil && len(cfd.Recv.List) == 1 && len(cfd.Recv.List[0].Names) == 1 {
		recv = cfd.Recv.List[0].Names[0].Name
	}
	t := &xeTrans{w: &wtrans{ex: ex, unit: "Compile:pre"}, tmpl: map[ast.Stmt]xeTmplRange{}, mapFields: map[string]bool{}}
	if recv != "" && ex.xeStructFieldIsMap("CompileOptions", "Parameters") {
		t.mapFields[recv+".Parameters"] = true
	}
	its, err := t.stmts(cfd.Body.List[:end+2])
	if err != nil {
		return err
	}
	units["Compile:pre"] = its
	fns = append(fns, fnrow{"Compile", append([]string{recv}, paramNames(cfd)...), xeResultNames(cfd)})

	var keys []string
	for k := range units {
		keys = append(keys, k)
	}
	sort.Strings(keys)
	sb.WriteString("/-- pql.go: the expression layer and the front part of `Compile` as a flat prefix-coded IR\n")
	sb.WriteString("    (see harness/extract_expr.go): `writeExpression` (template ranges as [\"template\", key]),\n")
	sb.WriteString("    `writeExpressionMaybeParen`, `writeExpressionTight`, `hasJoinTerms`, every `write*Function`\n")
	sb.WriteString("    (arity guard, then its template), `Compile` up to the call of `splitQueries` -/\n")
	sb.WriteString("def exprIR : List (String × List (List String)) :=\n  [")
	for i, k := range keys {
		if i > 0 {
			sb.WriteString(",\n   ")
		}
		fmt.Fprintf(sb, "(%s, [", leanStr(k))
		for j, it := range units[k] {
			if j > 0 {
				sb.WriteString(", ")
			}
			sb.WriteString(leanStrList(it))
		}
		sb.WriteString("])")
	}
	sb.WriteString("]\n\n")
	sb.WriteString("/-- the translated functions: (name, parameter names (for `Compile`: the receiver first), named results) -/\n")
	sb.WriteString("def exprFns : List (String × List String × List String) :=\n  [")
	for i, f := range fns {
		if i > 0 {
			sb.WriteString(",\n   ")
		}
		fmt.Fprintf(sb, "(%s, %s, %s)", leanStr(f.name), leanStrList(f.params), leanStrList(f.results))
	}
	sb.WriteString("]\n\n")
	return nil
}
