package main

// Translator for the pointer-and-slice layer of pql.go: `splitQueries` and `chainSubquery`.
//
//	splitQueries   one unit for the statements before the operator loop ("splitQueries:pre"), one per
//	               case of `for i := 0; i < len(expr.Operators); i++ { switch op := expr.Operators[i].(type) {…} }`
//	               ("splitQueries:case:<types>"), one for the statements after the loop ("splitQueries:post")
//	chainSubquery  the whole body ("chainSubquery")
//
// A unit is a flat list of items (an item is a list of strings); blocks are closed by ["end"], an
// `if` may have an ["else"] part.  A path `root.F.G` is two strings (variable, field string), as in
// extract_write.go.  Integer expressions <int>, value expressions <val> and conditions <cond> are
// prefix-coded inside an item.
//
//	<int>  ::= var v | len v | lenm1 v                                   v  /  len(v)  /  len(v)-1
//	<val>  ::= var v | path root fields | subqueryName <int> | string b   (b.String())
//	         | newnode T (K kind root fields)*      &parser.T{K: root.fields, …}; kind "path", or "list1" for `[]*parser.U{root.fields}`
//	<cond> ::= or <cond> <cond> | isnil root fields | notnil root fields | notcan root fields   (!canAttachSort(root.fields))
//	         | intcmp gt|ge|eq <int> <int> | streq v "text"
//
//	["defint", v, <int>]                     v := <int>
//	["varptr", v]                            var v *subquery
//	["varerr"]                               var err error
//	["trycall", v, callee, (root, fields)*]  v, err = callee(args…); if err != nil { return nil, err }
//	["setfield", v, f, <val>]                v.f = <val>
//	["append", v, w]                         v = append(v, w)
//	["setidx", v, w, <int>]                  v = w[<int>]
//	["if", <cond>] … [["else"] …] ["end"]    (an expression switch on a string variable becomes an if/else chain:
//	                                          `case "a", "b":` is `or (streq v a) (streq v b)`, default is the last else)
//	["declstr", v, text]                     v := "text"
//	["setstr", v, root, fields]              v = root.fields
//	["newbuilder", v]                        v := new(strings.Builder)
//	["lit", b, text]                         b.WriteString("text")
//	["litcat", b, pre, c, suf]               b.WriteString(`pre` + c + `suf`)          (c a package constant)
//	["qidptr", b, v, f]                      quoteIdentifier(b, v.f)
//	["qididx", b, w, f, <int>]               quoteIdentifier(b, w[<int>].f)
//	["trydatasource", b, root, fields]       if err := dataSourceSQL(b, root.fields); err != nil { return nil, err }
//	["reterr"]                               return nil, &compileError{…}
//	["ctx", v, source, scope, mode]          v := &exprContext{source: source, scope: scope, mode: mode}
//	["tryexprjoin", c, b, root, fields]      if err := writeExpression(c, b, buildJoinCondition(root.fields)); err != nil { return nil, err }
//	["new", v, "def"|"set", (f <val>)*]      v := / v = &subquery{f: <val>, …}
//	["return", v]                            return v, nil                             (last statement of a unit only)
//
// Any other statement or expression shape is an error (the step fails, nothing is skipped).
// Model/SplitIR.lean decodes and interprets the items over a heap of `subquery` objects;
// Props/C02SplitIR.lean proves the hand-written imperative machine `SplitImp.splitQueriesI` equal to
// the interpretation of what is regenerated here.

import (
	"fmt"
	"go/ast"
	"go/token"
	"sort"
	"strings"
)

type strans struct {
	w *wtrans // path(), errf()
}

func (t *strans) errf(n ast.Node, format string, args ...interface{}) error {
	first := strings.SplitN(t.w.ex.src(n), "\n", 2)[0]
	return fmt.Errorf("splitIR %s: %s: %s", t.w.unit, fmt.Sprintf(format, args...), first)
}

func identNameS(e ast.Expr) (string, bool) {
	id, ok := e.(*ast.Ident)
	if !ok || id.Name == "nil" || id.Name == "_" {
		return "", false
	}
	return id.Name, true
}

// <int>
func (t *strans) intExpr(e ast.Expr) ([]string, bool) {
	switch x := e.(type) {
	case *ast.ParenExpr:
		return t.intExpr(x.X)
	case *ast.Ident:
		if v, ok := identNameS(x); ok {
			return []string{"var", v}, true
		}
	case *ast.CallExpr:
		if isIdent(x.Fun, "len") && len(x.Args) == 1 {
			if v, ok := identNameS(x.Args[0]); ok {
				return []string{"len", v}, true
			}
		}
	case *ast.BinaryExpr:
		if x.Op == token.SUB && isIntLit(x.Y, "1") {
			if c, ok := x.X.(*ast.CallExpr); ok && isIdent(c.Fun, "len") && len(c.Args) == 1 {
				if v, ok := identNameS(c.Args[0]); ok {
					return []string{"lenm1", v}, true
				}
			}
		}
	}
	return nil, false
}

// an <int> that is not a plain variable
func (t *strans) lenExpr(e ast.Expr) ([]string, bool) {
	r, ok := t.intExpr(e)
	if !ok || r[0] == "var" {
		return nil, false
	}
	return r, true
}

func (t *strans) cond(e ast.Expr) ([]string, error) {
	switch x := e.(type) {
	case *ast.ParenExpr:
		return t.cond(x.X)
	case *ast.UnaryExpr:
		if x.Op == token.NOT {
			if c, ok := x.X.(*ast.CallExpr); ok && isIdent(c.Fun, "canAttachSort") && len(c.Args) == 1 {
				if r, f, ok := t.w.path(c.Args[0]); ok {
					return []string{"notcan", r, f}, nil
				}
			}
		}
	case *ast.BinaryExpr:
		switch x.Op {
		case token.LOR:
			a, err := t.cond(x.X)
			if err != nil {
				return nil, err
			}
			b, err := t.cond(x.Y)
			if err != nil {
				return nil, err
			}
			return append(append([]string{"or"}, a...), b...), nil
		case token.EQL, token.NEQ, token.GTR, token.GEQ:
			if isIdent(x.Y, "nil") && (x.Op == token.EQL || x.Op == token.NEQ) {
				if r, f, ok := t.w.path(x.X); ok {
					if x.Op == token.EQL {
						return []string{"isnil", r, f}, nil
					}
					return []string{"notnil", r, f}, nil
				}
				break
			}
			if s, ok := strLit(x.Y); ok && x.Op == token.EQL {
				if v, ok := identNameS(x.X); ok {
					return []string{"streq", v, s}, nil
				}
				break
			}
			a, ok1 := t.intExpr(x.X)
			b, ok2 := t.intExpr(x.Y)
			if ok1 && ok2 && (a[0] != "var" || b[0] != "var" || x.Op != token.EQL) && x.Op != token.NEQ {
				op := map[token.Token]string{token.EQL: "eq", token.GTR: "gt", token.GEQ: "ge"}[x.Op]
				return append(append([]string{"intcmp", op}, a...), b...), nil
			}
		}
	}
	return nil, t.errf(e, "condition not of a known shape")
}

// &T{…} with keyed fields; T is `subquery`, `exprContext` or `parser.X`
func compositeLit(e ast.Expr) (typ string, elts []*ast.KeyValueExpr, ok bool) {
	u, isU := e.(*ast.UnaryExpr)
	if !isU || u.Op != token.AND {
		return "", nil, false
	}
	cl, isC := u.X.(*ast.CompositeLit)
	if !isC {
		return "", nil, false
	}
	switch ty := cl.Type.(type) {
	case *ast.Ident:
		typ = ty.Name
	case *ast.SelectorExpr:
		if !isIdent(ty.X, "parser") {
			return "", nil, false
		}
		typ = "parser." + ty.Sel.Name
	default:
		return "", nil, false
	}
	for _, el := range cl.Elts {
		kv, isKV := el.(*ast.KeyValueExpr)
		if !isKV {
			return "", nil, false
		}
		if _, isId := kv.Key.(*ast.Ident); !isId {
			return "", nil, false
		}
		elts = append(elts, kv)
	}
	return typ, elts, true
}

// <val>
func (t *strans) valExpr(e ast.Expr) ([]string, error) {
	if v, ok := identNameS(e); ok {
		return []string{"var", v}, nil
	}
	if r, f, ok := t.w.path(e); ok && f != "" {
		return []string{"path", r, f}, nil
	}
	if c, ok := e.(*ast.CallExpr); ok {
		if isIdent(c.Fun, "subqueryName") && len(c.Args) == 1 {
			if a, ok := t.intExpr(c.Args[0]); ok {
				return append([]string{"subqueryName"}, a...), nil
			}
		}
		if sel, ok := c.Fun.(*ast.SelectorExpr); ok && sel.Sel.Name == "String" && len(c.Args) == 0 {
			if b, ok := identNameS(sel.X); ok {
				return []string{"string", b}, nil
			}
		}
	}
	if typ, elts, ok := compositeLit(e); ok && strings.HasPrefix(typ, "parser.") {
		out := []string{"newnode", strings.TrimPrefix(typ, "parser.")}
		for _, kv := range elts {
			key := kv.Key.(*ast.Ident).Name
			if r, f, ok := t.w.path(kv.Value); ok && f != "" {
				out = append(out, key, "path", r, f)
				continue
			}
			// []*parser.U{P}
			if cl, ok := kv.Value.(*ast.CompositeLit); ok && len(cl.Elts) == 1 {
				if at, ok := cl.Type.(*ast.ArrayType); ok && at.Len == nil {
					if _, ok := at.Elt.(*ast.StarExpr); ok {
						if r, f, ok := t.w.path(cl.Elts[0]); ok && f != "" {
							out = append(out, key, "list1", r, f)
							continue
						}
					}
				}
			}
			return nil, t.errf(kv, "field of a node literal not of a known shape")
		}
		return out, nil
	}
	return nil, t.errf(e, "value not of a known shape")
}

// &subquery{f: <val>, …}
func (t *strans) newSubquery(e ast.Expr) ([]string, bool, error) {
	typ, elts, ok := compositeLit(e)
	if !ok || typ != "subquery" {
		return nil, false, nil
	}
	var out []string
	for _, kv := range elts {
		v, err := t.valExpr(kv.Value)
		if err != nil {
			return nil, true, err
		}
		if v[0] == "newnode" {
			return nil, true, t.errf(kv, "node literal inside a subquery literal")
		}
		out = append(out, kv.Key.(*ast.Ident).Name)
		out = append(out, v...)
	}
	return out, true, nil
}

// `if err != nil { return nil, err }`
func (t *strans) isErrReturn(st ast.Stmt) bool {
	ifs, ok := st.(*ast.IfStmt)
	if !ok || ifs.Init != nil || ifs.Else != nil || t.w.ex.src(ifs.Cond) != "err != nil" || len(ifs.Body.List) != 1 {
		return false
	}
	return t.w.ex.src(ifs.Body.List[0]) == "return nil, err"
}

func (t *strans) callStmt(call *ast.CallExpr) (wItem, error) {
	// b.WriteString(…)
	if sel, ok := call.Fun.(*ast.SelectorExpr); ok && sel.Sel.Name == "WriteString" && len(call.Args) == 1 {
		if b, ok := identNameS(sel.X); ok {
			if s, ok := strLit(call.Args[0]); ok {
				return wItem{"lit", b, s}, nil
			}
			// `pre` + c + `suf`
			if outer, ok := call.Args[0].(*ast.BinaryExpr); ok && outer.Op == token.ADD {
				if inner, ok := outer.X.(*ast.BinaryExpr); ok && inner.Op == token.ADD {
					pre, ok1 := strLit(inner.X)
					c, ok2 := identNameS(inner.Y)
					suf, ok3 := strLit(outer.Y)
					if ok1 && ok2 && ok3 {
						return wItem{"litcat", b, pre, c, suf}, nil
					}
				}
			}
		}
		return nil, t.errf(call, "WriteString not of a known shape")
	}
	// quoteIdentifier(b, v.f) / quoteIdentifier(b, w[<int>].f)
	if isIdent(call.Fun, "quoteIdentifier") && len(call.Args) == 2 {
		if b, ok := identNameS(call.Args[0]); ok {
			if sel, ok := call.Args[1].(*ast.SelectorExpr); ok {
				if v, ok := identNameS(sel.X); ok {
					return wItem{"qidptr", b, v, sel.Sel.Name}, nil
				}
				if ix, ok := sel.X.(*ast.IndexExpr); ok {
					if w, ok := identNameS(ix.X); ok {
						if i, ok := t.intExpr(ix.Index); ok {
							return append(wItem{"qididx", b, w, sel.Sel.Name}, i...), nil
						}
					}
				}
			}
		}
	}
	return nil, t.errf(call, "call not of a known shape")
}

// `if err := F(…); err != nil { return nil, err }`
func (t *strans) errCall(ifs *ast.IfStmt) (wItem, bool) {
	as, ok := ifs.Init.(*ast.AssignStmt)
	if !ok || as.Tok != token.DEFINE || len(as.Lhs) != 1 || len(as.Rhs) != 1 || !isIdent(as.Lhs[0], "err") || ifs.Else != nil {
		return nil, false
	}
	if t.w.ex.src(ifs.Cond) != "err != nil" || len(ifs.Body.List) != 1 || t.w.ex.src(ifs.Body.List[0]) != "return nil, err" {
		return nil, false
	}
	call, ok := as.Rhs[0].(*ast.CallExpr)
	if !ok {
		return nil, false
	}
	if isIdent(call.Fun, "dataSourceSQL") && len(call.Args) == 2 {
		b, ok1 := identNameS(call.Args[0])
		r, f, ok2 := t.w.path(call.Args[1])
		if ok1 && ok2 {
			return wItem{"trydatasource", b, r, f}, true
		}
	}
	if isIdent(call.Fun, "writeExpression") && len(call.Args) == 3 {
		c, ok1 := identNameS(call.Args[0])
		b, ok2 := identNameS(call.Args[1])
		if inner, ok := call.Args[2].(*ast.CallExpr); ok && ok1 && ok2 && isIdent(inner.Fun, "buildJoinCondition") && len(inner.Args) == 1 {
			if r, f, ok := t.w.path(inner.Args[0]); ok {
				return wItem{"tryexprjoin", c, b, r, f}, true
			}
		}
	}
	return nil, false
}

func (t *strans) assign(as *ast.AssignStmt) (wItem, error) {
	if len(as.Lhs) != 1 || len(as.Rhs) != 1 {
		return nil, t.errf(as, "assignment not of a known shape")
	}
	rhs := as.Rhs[0]
	if as.Tok == token.DEFINE {
		v, ok := identNameS(as.Lhs[0])
		if !ok {
			return nil, t.errf(as, "definition target is not a variable")
		}
		if i, ok := t.lenExpr(rhs); ok {
			return append(wItem{"defint", v}, i...), nil
		}
		if s, ok := strLit(rhs); ok {
			return wItem{"declstr", v, s}, nil
		}
		if t.w.ex.src(rhs) == "new(strings.Builder)" {
			return wItem{"newbuilder", v}, nil
		}
		if typ, elts, ok := compositeLit(rhs); ok && typ == "exprContext" {
			vals := map[string]string{}
			for _, kv := range elts {
				k := kv.Key.(*ast.Ident).Name
				val, ok := identNameS(kv.Value)
				if !ok || (k != "source" && k != "scope" && k != "mode") {
					return nil, t.errf(as, "exprContext literal field")
				}
				if _, dup := vals[k]; dup {
					return nil, t.errf(as, "exprContext literal: duplicate field")
				}
				vals[k] = val
			}
			return wItem{"ctx", v, vals["source"], vals["scope"], vals["mode"]}, nil
		}
		if fields, is, err := t.newSubquery(rhs); is {
			if err != nil {
				return nil, err
			}
			return append(wItem{"new", v, "def"}, fields...), nil
		}
		return nil, t.errf(as, "definition not of a known shape")
	}
	if as.Tok != token.ASSIGN {
		return nil, t.errf(as, "assignment operator")
	}
	// v.f = <val>
	if sel, ok := as.Lhs[0].(*ast.SelectorExpr); ok {
		v, ok := identNameS(sel.X)
		if !ok {
			return nil, t.errf(as, "assignment target is not a field of a variable")
		}
		val, err := t.valExpr(rhs)
		if err != nil {
			return nil, err
		}
		return append(wItem{"setfield", v, sel.Sel.Name}, val...), nil
	}
	v, ok := identNameS(as.Lhs[0])
	if !ok {
		return nil, t.errf(as, "assignment target is not a variable")
	}
	// v = append(v, w)
	if call, ok := rhs.(*ast.CallExpr); ok && isIdent(call.Fun, "append") && len(call.Args) == 2 && !call.Ellipsis.IsValid() {
		w, ok := identNameS(call.Args[1])
		if !isIdent(call.Args[0], v) || !ok {
			return nil, t.errf(as, "append not of the shape v = append(v, w)")
		}
		return wItem{"append", v, w}, nil
	}
	// v = w[<int>]
	if ix, ok := rhs.(*ast.IndexExpr); ok {
		if w, ok := identNameS(ix.X); ok {
			if i, ok := t.intExpr(ix.Index); ok {
				return append(wItem{"setidx", v, w}, i...), nil
			}
		}
		return nil, t.errf(as, "index expression not of a known shape")
	}
	if fields, is, err := t.newSubquery(rhs); is {
		if err != nil {
			return nil, err
		}
		return append(wItem{"new", v, "set"}, fields...), nil
	}
	if r, f, ok := t.w.path(rhs); ok && f != "" {
		return wItem{"setstr", v, r, f}, nil
	}
	return nil, t.errf(as, "assigned value not of a known shape")
}

func (t *strans) stmts(list []ast.Stmt, top bool) ([]wItem, error) {
	var out []wItem
	for i := 0; i < len(list); i++ {
		st := list[i]
		last := top && i == len(list)-1
		switch s := st.(type) {
		case *ast.ExprStmt:
			call, ok := s.X.(*ast.CallExpr)
			if !ok {
				return nil, t.errf(st, "expression statement is not a call")
			}
			it, err := t.callStmt(call)
			if err != nil {
				return nil, err
			}
			out = append(out, it)
		case *ast.AssignStmt:
			// v, err = callee(args…) followed by `if err != nil { return nil, err }`
			if len(s.Lhs) == 2 && len(s.Rhs) == 1 && s.Tok == token.ASSIGN && isIdent(s.Lhs[1], "err") {
				v, ok := identNameS(s.Lhs[0])
				call, isCall := s.Rhs[0].(*ast.CallExpr)
				if !ok || !isCall || i+1 >= len(list) || !t.isErrReturn(list[i+1]) {
					return nil, t.errf(st, "two-valued assignment that is not `v, err = f(…)` followed by `if err != nil { return nil, err }`")
				}
				callee, ok := identNameS(call.Fun)
				if !ok || (callee != "chainSubquery" && callee != "splitQueries") {
					return nil, t.errf(st, "callee is neither chainSubquery nor splitQueries")
				}
				it := wItem{"trycall", v, callee}
				for _, a := range call.Args {
					r, f, ok := t.w.path(a)
					if !ok {
						return nil, t.errf(a, "argument is not a path")
					}
					it = append(it, r, f)
				}
				out = append(out, it)
				i++
				continue
			}
			it, err := t.assign(s)
			if err != nil {
				return nil, err
			}
			out = append(out, it)
		case *ast.DeclStmt:
			src := t.w.ex.src(st)
			gd, ok := s.Decl.(*ast.GenDecl)
			if !ok || gd.Tok != token.VAR || len(gd.Specs) != 1 {
				return nil, t.errf(st, "declaration is not a single variable")
			}
			vs := gd.Specs[0].(*ast.ValueSpec)
			if len(vs.Names) != 1 || len(vs.Values) != 0 {
				return nil, t.errf(st, "variable declaration shape")
			}
			switch {
			case src == "var err error":
				out = append(out, wItem{"varerr"})
			case typeString(vs.Type) == "*subquery":
				out = append(out, wItem{"varptr", vs.Names[0].Name})
			default:
				return nil, t.errf(st, "variable declaration of an unknown type")
			}
		case *ast.IfStmt:
			its, err := t.ifStmt(s)
			if err != nil {
				return nil, err
			}
			out = append(out, its...)
		case *ast.SwitchStmt:
			its, err := t.strSwitch(s)
			if err != nil {
				return nil, err
			}
			out = append(out, its...)
		case *ast.ReturnStmt:
			if len(s.Results) == 2 && isIdent(s.Results[0], "nil") {
				if typ, _, ok := compositeLit(s.Results[1]); ok && typ == "compileError" {
					out = append(out, wItem{"reterr"})
					continue
				}
			}
			if last && len(s.Results) == 2 && isIdent(s.Results[1], "nil") {
				if v, ok := identNameS(s.Results[0]); ok {
					out = append(out, wItem{"return", v})
					continue
				}
			}
			return nil, t.errf(st, "return not of a known shape or not in a known position")
		default:
			return nil, t.errf(st, "statement not of a known shape (%T)", st)
		}
	}
	return out, nil
}

func (t *strans) ifStmt(s *ast.IfStmt) ([]wItem, error) {
	if s.Init != nil {
		if it, ok := t.errCall(s); ok {
			return []wItem{it}, nil
		}
		return nil, t.errf(s, "if with an initialiser that is not a known error-returning call")
	}
	c, err := t.cond(s.Cond)
	if err != nil {
		return nil, err
	}
	out := []wItem{append(wItem{"if"}, c...)}
	body, err := t.stmts(s.Body.List, false)
	if err != nil {
		return nil, err
	}
	out = append(out, body...)
	switch e := s.Else.(type) {
	case nil:
	case *ast.BlockStmt:
		eb, err := t.stmts(e.List, false)
		if err != nil {
			return nil, err
		}
		out = append(out, wItem{"else"})
		out = append(out, eb...)
	case *ast.IfStmt:
		eb, err := t.ifStmt(e)
		if err != nil {
			return nil, err
		}
		out = append(out, wItem{"else"})
		out = append(out, eb...)
	default:
		return nil, t.errf(s, "else part")
	}
	out = append(out, wItem{"end"})
	return out, nil
}

// `switch v { case "a", "b": …; case "c": …; default: … }` as an if/else chain (no fallthrough:
// a branch statement is not a known statement shape)
func (t *strans) strSwitch(s *ast.SwitchStmt) ([]wItem, error) {
	if s.Init != nil || s.Tag == nil {
		return nil, t.errf(s, "switch shape")
	}
	v, ok := identNameS(s.Tag)
	if !ok {
		return nil, t.errf(s, "switch tag is not a variable")
	}
	var out []wItem
	var deflt []ast.Stmt
	hasDefault := false
	depth := 0
	for _, c := range s.Body.List {
		cc := c.(*ast.CaseClause)
		if cc.List == nil {
			if hasDefault {
				return nil, t.errf(s, "two default clauses")
			}
			hasDefault = true
			deflt = cc.Body
			continue
		}
		var cond []string
		for i, e := range cc.List {
			lit, ok := strLit(e)
			if !ok {
				return nil, t.errf(e, "case label is not a string literal")
			}
			one := []string{"streq", v, lit}
			if i == 0 {
				cond = one
			} else {
				cond = append(append([]string{"or"}, cond...), one...)
			}
		}
		body, err := t.stmts(cc.Body, false)
		if err != nil {
			return nil, err
		}
		if depth > 0 {
			out = append(out, wItem{"else"})
		}
		out = append(out, append(wItem{"if"}, cond...))
		out = append(out, body...)
		depth++
	}
	if depth == 0 {
		return nil, t.errf(s, "switch without cases")
	}
	if hasDefault {
		body, err := t.stmts(deflt, false)
		if err != nil {
			return nil, err
		}
		out = append(out, wItem{"else"})
		out = append(out, body...)
	}
	for ; depth > 0; depth-- {
		out = append(out, wItem{"end"})
	}
	return out, nil
}

func paramNames(fd *ast.FuncDecl) []string {
	var out []string
	for _, f := range fd.Type.Params.List {
		for _, n := range f.Names {
			out = append(out, n.Name)
		}
	}
	return out
}

func (ex *extractor) splitIR(sb *strings.Builder) error {
	units := map[string][]wItem{}
	params := map[string][]string{}

	// splitQueries: pre; for { switch }; post
	fd := ex.funcDecl("pql", "", "splitQueries")
	if fd == nil {
		return fmt.Errorf("splitIR: splitQueries not found")
	}
	params["splitQueries"] = paramNames(fd)
	loopAt := -1
	for i, st := range fd.Body.List {
		if _, ok := st.(*ast.ForStmt); ok {
			if loopAt >= 0 {
				return fmt.Errorf("splitIR splitQueries: two top-level loops")
			}
			loopAt = i
		}
	}
	if loopAt < 0 {
		return fmt.Errorf("splitIR splitQueries: no top-level for loop")
	}
	t := &strans{w: &wtrans{ex: ex, unit: "splitQueries:pre"}}
	its, err := t.stmts(fd.Body.List[:loopAt], false)
	if err != nil {
		return err
	}
	units["splitQueries:pre"] = its

	// for i := 0; i < len(P); i++ { switch op := P[i].(type) { … } }
	t.w.unit = "splitQueries:loop"
	loop := fd.Body.List[loopAt].(*ast.ForStmt)
	if loop.Init == nil || loop.Cond == nil || loop.Post == nil || len(loop.Body.List) != 1 {
		return t.errf(loop, "loop shape")
	}
	init, ok := loop.Init.(*ast.AssignStmt)
	if !ok || init.Tok != token.DEFINE || len(init.Lhs) != 1 || len(init.Rhs) != 1 || !isIntLit(init.Rhs[0], "0") {
		return t.errf(loop, "loop initialiser is not `i := 0`")
	}
	idx, ok := identNameS(init.Lhs[0])
	if !ok {
		return t.errf(loop, "loop variable")
	}
	inc, ok := loop.Post.(*ast.IncDecStmt)
	if !ok || inc.Tok != token.INC || !isIdent(inc.X, idx) {
		return t.errf(loop, "loop post statement is not `i++`")
	}
	cmp, ok := loop.Cond.(*ast.BinaryExpr)
	if !ok || cmp.Op != token.LSS || !isIdent(cmp.X, idx) {
		return t.errf(loop, "loop condition is not `i < len(P)`")
	}
	lr, lf, ok := t.w.lenOf(cmp.Y)
	if !ok || lf == "" {
		return t.errf(loop, "loop bound is not `len(P)`")
	}
	ts, ok := loop.Body.List[0].(*ast.TypeSwitchStmt)
	if !ok || ts.Init != nil {
		return t.errf(loop, "loop body is not a single type switch")
	}
	as, ok := ts.Assign.(*ast.AssignStmt)
	if !ok || len(as.Lhs) != 1 || len(as.Rhs) != 1 {
		return t.errf(ts, "type switch does not bind a variable")
	}
	opv, ok := identNameS(as.Lhs[0])
	ta, ok2 := as.Rhs[0].(*ast.TypeAssertExpr)
	if !ok || !ok2 || ta.Type != nil {
		return t.errf(ts, "type switch subject")
	}
	ix, ok := ta.X.(*ast.IndexExpr)
	if !ok || !isIdent(ix.Index, idx) {
		return t.errf(ts, "type switch subject is not `P[i]`")
	}
	sr, sf, ok := t.w.path(ix.X)
	if !ok || sr != lr || sf != lf {
		return t.errf(ts, "type switch subject is not an element of the slice the loop runs over")
	}
	var cases [][]string
	for _, c := range ts.Body.List {
		cc := c.(*ast.CaseClause)
		names := []string{"default"}
		if cc.List != nil {
			names = caseNames(cc)
		}
		key := "splitQueries:case:" + strings.Join(names, ",")
		t.w.unit = key
		its, err := t.stmts(cc.Body, false)
		if err != nil {
			return err
		}
		if _, dup := units[key]; dup {
			return fmt.Errorf("splitIR %s: duplicate case", key)
		}
		units[key] = its
		cases = append(cases, names)
	}
	// the loop variable is used for nothing else
	uses := 0
	ast.Inspect(loop, func(n ast.Node) bool {
		if id, ok := n.(*ast.Ident); ok && id.Name == idx {
			uses++
		}
		return true
	})
	if uses != 4 {
		return t.errf(loop, "the loop variable is used outside the loop header and the switch subject")
	}

	t.w.unit = "splitQueries:post"
	its, err = t.stmts(fd.Body.List[loopAt+1:], true)
	if err != nil {
		return err
	}
	units["splitQueries:post"] = its

	// chainSubquery: the whole body
	cfd := ex.funcDecl("pql", "", "chainSubquery")
	if cfd == nil {
		return fmt.Errorf("splitIR: chainSubquery not found")
	}
	params["chainSubquery"] = paramNames(cfd)
	t.w.unit = "chainSubquery"
	its, err = t.stmts(cfd.Body.List, true)
	if err != nil {
		return err
	}
	units["chainSubquery"] = its

	for name, u := range units {
		if name == "splitQueries:post" || name == "chainSubquery" {
			if len(u) == 0 || u[len(u)-1][0] != "return" {
				return fmt.Errorf("splitIR %s: does not end in `return v, nil`", name)
			}
		}
	}

	var keys []string
	for k := range units {
		keys = append(keys, k)
	}
	sort.Strings(keys)
	sb.WriteString("/-- pql.go: `splitQueries` and `chainSubquery` as a flat prefix-coded IR (see harness/extract_split.go):\n")
	sb.WriteString("    the statements before the operator loop, one unit per case of the type switch in the loop, the\n")
	sb.WriteString("    statements after the loop; the body of `chainSubquery` -/\n")
	sb.WriteString("def splitIR : List (String × List (List String)) :=\n  [")
	for i, k := range keys {
		if i > 0 {
			sb.WriteString(",\n   ")
		}
		fmt.Fprintf(sb, "(%s, [", leanStr(k))
		for j, it := range units[k] {
			if j > 0 {
				sb.WriteString(", ")
			}
			sb.WriteString(leanStrList(it))
		}
		sb.WriteString("])")
	}
	sb.WriteString("]\n\n")
	sb.WriteString("/-- the loop of `splitQueries`: `for i := 0; i < len(root.fields); i++ { switch op := root.fields[i].(type) {…} }`\n")
	sb.WriteString("    as [bound variable, subject root, subject fields] -/\n")
	fmt.Fprintf(sb, "def splitLoop : List String := %s\n\n", leanStrList([]string{opv, sr, sf}))
	sb.WriteString("/-- the cases of that type switch in source order: (type labels, key of the unit in `splitIR`) -/\n")
	sb.WriteString("def splitCases : List (List String × String) :=\n  [")
	for j, c := range cases {
		if j > 0 {
			sb.WriteString(", ")
		}
		fmt.Fprintf(sb, "(%s, %s)", leanStrList(c), leanStr("splitQueries:case:"+strings.Join(c, ",")))
	}
	sb.WriteString("]\n\n")
	sb.WriteString("/-- parameter names, in order -/\n")
	fmt.Fprintf(sb, "def splitParams : List (String × List String) :=\n  [(\"chainSubquery\", %s), (\"splitQueries\", %s)]\n\n",
		leanStrList(params["chainSubquery"]), leanStrList(params["splitQueries"]))
	return nil
}
