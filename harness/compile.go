package main

import (
	"regexp"
	"fmt"
	"reflect"
	"sort"
	"strings"

	"github.com/runreveal/pql"
)

// parseParams decodes "khex:vhex,khex:vhex" ("-" = no options at all).
func parseParams(f string) (map[string]string, bool) {
	if f == "-" {
		return nil, false
	}
	m := map[string]string{}
	if f == "=" { // empty, non-nil map
		return m, true
	}
	if f == "0" { // the zero CompileOptions value: non-nil options, nil map
		return nil, true
	}
	for _, kv := range strings.Split(f, ",") {
		i := strings.Index(kv, ":")
		if i < 0 {
			continue
		}
		m[unhex(kv[:i])] = unhex(kv[i+1:])
	}
	return m, true
}

func fmtParams(m map[string]string) string {
	if m == nil {
		return "-"
	}
	if len(m) == 0 {
		return "="
	}
	keys := make([]string, 0, len(m))
	for k := range m {
		keys = append(keys, k)
	}
	sort.Strings(keys)
	var parts []string
	for _, k := range keys {
		parts = append(parts, hexs(k)+":"+hexs(m[k]))
	}
	return strings.Join(parts, ",")
}

// fmtCompile: OK sqlhex | ERR [start end] | BOTH … | NEITHER
func fmtCompile(sql string, err error) string {
	switch {
	case err == nil && sql != "":
		return "OK " + hexs(sql)
	case err == nil:
		return "NEITHER"
	case sql != "":
		return "BOTH " + hexs(sql)
	}
	if a, b, ok := pql.VerifCompileErrorSpan(err); ok {
		return fmt.Sprintf("ERR %d %d", a, b)
	}
	return "ERR"
}

var errPosRe = regexp.MustCompile(`(\d+):(\d+): `)

func errPos(err error) string {
	if err == nil {
		return "-"
	}
	m := errPosRe.FindStringSubmatch(err.Error())
	if m == nil {
		return "-"
	}
	return m[1] + ":" + m[2]
}

func compileWith(src string, params map[string]string, has bool) (string, error) {
	if !has {
		return pql.Compile(src)
	}
	return (&pql.CompileOptions{Parameters: params}).Compile(src)
}

func init() {
	// COMPILE src params
	moreOps["COMPILE"] = func(c Case) string {
		params, has := parseParams(c.Fields[1])
		return fmtCompile(compileWith(unhex(c.Fields[0]), params, has))
	}
	// EVAL src dbseed : compile; the driver evaluates SQL and pipeline on small databases
	moreOps["EVAL"] = func(c Case) string {
		return fmtCompile(compileWith(unhex(c.Fields[0]), nil, false))
	}
	// COMPILESEQ srcA srcB params : both programs compiled one after the other with the SAME
	// CompileOptions value (and the same map); result A ;; result B ;; PARAMS-OK|PARAMS-CHANGED
	moreOps["COMPILESEQ"] = func(c Case) string {
		params, has := parseParams(c.Fields[2])
		before := cloneMap(params)
		var opts *pql.CompileOptions
		if has {
			opts = &pql.CompileOptions{Parameters: params}
		}
		sqlA, errA := opts.Compile(unhex(c.Fields[0]))
		sqlB, errB := opts.Compile(unhex(c.Fields[1]))
		a := fmtCompile(sqlA, errA)
		b := fmtCompile(sqlB, errB)
		st := "PARAMS-OK"
		if !reflect.DeepEqual(before, params) {
			st = "PARAMS-CHANGED"
		}
		// the first line:column the error message names (the message is part of the result: it must be the
		// position in THIS source, whatever was compiled before)
		// the second program once more, with a FRESH options value holding the parameters as they were: what it
		// yields on its own (the oracle compares the call in the sequence with this, not with the model)
		var fresh *pql.CompileOptions
		if has {
			fresh = &pql.CompileOptions{Parameters: cloneMap(before)}
		}
		alone := fmtCompile(fresh.Compile(unhex(c.Fields[1])))
		return a + " ;; " + b + " ;; " + st + " ;; POS " + errPos(errA) + " " + errPos(errB) + " ;; ALONE " + alone
	}
	// QUOTE s|i bytes
	moreOps["QUOTE"] = func(c Case) string {
		if c.Fields[0] == "s" {
			return hexs(pql.VerifQuoteSQLString(unhex(c.Fields[1])))
		}
		return hexs(pql.VerifQuoteIdentifier(unhex(c.Fields[1])))
	}
}

func init() {
	// COMPILE2 srcA srcB params : two programs that differ only in literal / name contents
	moreOps["COMPILE2"] = func(c Case) string {
		params, has := parseParams(c.Fields[2])
		a := fmtCompile(compileWith(unhex(c.Fields[0]), params, has))
		b := fmtCompile(compileWith(unhex(c.Fields[1]), params, has))
		return a + " ;; " + b
	}
	caseSets["content"] = genContentCases
}

var quoteAlphabet = []string{"'", "\"", "`", "\\", "-", "/", "*", ";", "a", " ", "\n", "\x00", "\xff"}

var nastyStrings = []string{
	`'x'`, `'it\'s'`, `"say \"hi\""`, `'--'`, `'/*'`, `'*/'`, `';'`, `'; drop table t; --'`, `'\''`, `"'"`, `'"'`, "'`'",
	`'a\nb'`, `'\t'`, `''`, `'é'`, `'\\'`, `'a\\'`, `'\\\''`, `"x' or '1'='1"`, `') --'`, `'(select 1)'`, `'$left'`, `'{p:Int}'`, `'?'`,
}
var nastyIdents = []string{
	"`x`", "`a``b`", "`a\"b`", "`a'b`", "`--`", "`/*`", "`;`", "`a b`", "`\"`", "`\"\"`", "`x\" , (select 1) as \"y`", "`é`", "`\\`", "`a\\`",
	"`$left`", "`select`", "``````",
}
var intLits = []string{"0", "1", "7", "42", "007", "0x1F", "0XaB", "100000000000", "18446744073709551615",
	"0x7fffffffffffffff", "0x8000000000000000", "0XFFFFFFFFFFFFFFFF", "9223372036854775808", "0x0000000000000000ff", "0xdeadbeefcafe"}
var floatLits = []string{"1.5", ".5", "1.", "1e3", "1E-2", "0.0", "00.25", "2.e1", "1e0", "7E+00", "2.5e-0", "0e0", ".5e00", "1e000", "1E5", "1e+05", "3e-007", "1e309", "1.5E+309", "1e-400", "123.456e999", "0.1234567890123456789", "9007199254740993.0", "123456789012345678901234567890.5", "1.0000000000000000001", "2.50"}

func isFloatLit(t string) bool { return strings.ContainsAny(t, ".eE") && !strings.HasPrefix(strings.ToLower(t), "0x") }

// mutateContent replaces the content of every string literal, quoted identifier and number
// token by another content of the same kind.
func mutateContent(toks []string) []string {
	out := make([]string, len(toks))
	for i, t := range toks {
		switch {
		case len(t) > 0 && (t[0] == '\'' || t[0] == '"'):
			out[i] = pick(nastyStrings)
		case len(t) > 0 && t[0] == '`':
			out[i] = pick(nastyIdents)
		case len(t) > 0 && (t[0] >= '0' && t[0] <= '9' || (t[0] == '.' && len(t) > 1)):
			if isFloatLit(t) {
				out[i] = pick(floatLits)
			} else {
				out[i] = pick(intLits)
			}
		default:
			out[i] = t
		}
	}
	return out
}

func genContentCases(tier string, emit func(op string, fields ...string)) {
	n, maxLen := 3000, 3
	if tier == "thorough" {
		n, maxLen = 50000, 4
	}
	// the two quoting functions, exhaustively over a small adversarial alphabet
	emit("QUOTE", "s", hexs(""))
	emit("QUOTE", "i", hexs(""))
	for l := 1; l <= maxLen; l++ {
		enumerate(quoteAlphabet, l, func(s string) {
			emit("QUOTE", "s", hexs(s))
			emit("QUOTE", "i", hexs(s))
		})
	}
	for i := 0; i < n; i++ {
		var sb strings.Builder
		for k, m := 0, rng.Intn(20); k < m; k++ {
			if rng.Intn(3) == 0 {
				sb.WriteByte(byte(rng.Intn(256)))
			} else {
				sb.WriteString(pick(quoteAlphabet))
			}
		}
		emit("QUOTE", "s", hexs(sb.String()))
		emit("QUOTE", "i", hexs(sb.String()))
	}
	// whole programs and content-mutated twins
	for i := 0; i < n; i++ {
		toks := genProgramToks(nil, 1+rng.Intn(3))
		a := mutateContent(toks)
		b := mutateContent(toks)
		emit("COMPILE2", hexs(layout(a, false)), hexs(layout(b, false)), "-")
		emit("COMPILE", hexs(layout(a, false)), "-")
	}
	// quoting-sensitive name positions with adversarial names: table, as-name, join operands read back
	for _, id := range nastyIdents {
		for _, tpl := range []string{"T | as X | join (U) on k", "X | join (U) on k", "T | join (X) on k", "T | join (U | as X) on k | count",
			"T | as X | where a > 0 | join kind=leftouter (X) on k", "T | as X | join kind=inner (U) on k | as X2 | count", "X | count", "T | as X"} {
			a := strings.ReplaceAll(tpl, "X", id)
			b := strings.ReplaceAll(tpl, "X", pick(nastyIdents))
			emit("COMPILE", hexs(a), "-")
			emit("COMPILE2", hexs(a), hexs(b), "-")
		}
	}
	for _, s := range []string{
		"T | render linechart with (title=\"\")", "T | render linechart with (title='', sub=\"\")", "T | render `` with (t=``)", "T | render `x' , (select 1) as y, '`", "T | render t with (`a\" b` = 'v\\'w')", "T | where a == 'a\\\\'", "`a\\` | count",
		"T | where x > -0XFFFFFFFFFFFFFFFF and y == 'keep'", "T | extend d = a - -0x8000000000000000", "T | take 0x8000000000000000", "T | where a[0xffffffffffffffff] == -0x8000000000000001",
		"T | project `x\"y` = 'it\\'s'", "T | as `a\"b` | count", "T | extend 'a;b'", "T | summarize count() by `k\"`",
	} {
		emit("COMPILE", hexs(s), "-")
	}
}
