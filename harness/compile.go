package main

import (
	"fmt"
	"sort"
	"strings"

	"github.com/runreveal/pql"
)

// parseParams decodes "khex:vhex,khex:vhex" ("-" = no options at all).
func parseParams(f string) (map[string]string, bool) {
	if f == "-" {
		return nil, false
	}
	m := map[string]string{}
	if f == "=" { // empty, non-nil map
		return m, true
	}
	for _, kv := range strings.Split(f, ",") {
		i := strings.Index(kv, ":")
		if i < 0 {
			continue
		}
		m[unhex(kv[:i])] = unhex(kv[i+1:])
	}
	return m, true
}

func fmtParams(m map[string]string) string {
	if m == nil {
		return "-"
	}
	if len(m) == 0 {
		return "="
	}
	keys := make([]string, 0, len(m))
	for k := range m {
		keys = append(keys, k)
	}
	sort.Strings(keys)
	var parts []string
	for _, k := range keys {
		parts = append(parts, hexs(k)+":"+hexs(m[k]))
	}
	return strings.Join(parts, ",")
}

// fmtCompile: OK sqlhex | ERR [start end] | BOTH … | NEITHER
func fmtCompile(sql string, err error) string {
	switch {
	case err == nil && sql != "":
		return "OK " + hexs(sql)
	case err == nil:
		return "NEITHER"
	case sql != "":
		return "BOTH " + hexs(sql)
	}
	if a, b, ok := pql.VerifCompileErrorSpan(err); ok {
		return fmt.Sprintf("ERR %d %d", a, b)
	}
	return "ERR"
}

func compileWith(src string, params map[string]string, has bool) (string, error) {
	if !has {
		return pql.Compile(src)
	}
	return (&pql.CompileOptions{Parameters: params}).Compile(src)
}

func init() {
	// COMPILE src params
	moreOps["COMPILE"] = func(c Case) string {
		params, has := parseParams(c.Fields[1])
		return fmtCompile(compileWith(unhex(c.Fields[0]), params, has))
	}
	// QUOTE s|i bytes
	moreOps["QUOTE"] = func(c Case) string {
		if c.Fields[0] == "s" {
			return hexs(pql.VerifQuoteSQLString(unhex(c.Fields[1])))
		}
		return hexs(pql.VerifQuoteIdentifier(unhex(c.Fields[1])))
	}
}
