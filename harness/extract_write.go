package main

// Translator for the imperative "writer" layer of pql.go above writeExpression:
//
//	(*subquery).write        one unit per case of the type switch on sub.op, one for the
//	                         ORDER BY / LIMIT suffix after the switch
//	(*CompileOptions).Compile the statement assembly: everything after `sb := new(strings.Builder)`
//	subqueryName, dataSourceSQL, quoteIdentifier, quoteSQLString
//
// Each unit becomes a flat, prefix-coded list of items (an item is a list of strings); blocks are
// closed by ["end"], an `if` may have an ["else"] part.  A path `root.F.G` is two strings: the
// variable `root` and the field string "F.G" (zero-argument AsQualified() calls and constant
// indexes are kept in the field string: "Name.AsQualified()", "Parts[0].Name"; `[]byte(name)` is
// the path (name, "[]byte")).
//
//	["lit", text]                      sb.WriteString("text")
//	["str", root, fields]              sb.WriteString(root.fields)
//	["byte", v]                        sb.WriteByte(v)
//	["grow"]                           sb.Grow(…)                       (no output)
//	["qid", root, fields]              quoteIdentifier(sb, root.fields)
//	["qidcat", text, root, fields]     quoteIdentifier(sb, "text"+root.fields)
//	["qidsrc", v]                      quoteIdentifier(sb, ctx.source[v.Start:v.End])
//	["qstr", root, fields]             quoteSQLString(sb, root.fields)
//	["expr", root, fields]             if err := writeExpression(ctx, sb, root.fields); err != nil { return err }
//	["call", "write", v]               if err := v.write(ctx, sb); err != nil { return [_,] err }
//	["span", v, root, fields]          v := root.fields.Span()
//	["declstr", v, text]               v := "text"   /   const v = "text"
//	["set", v, root, fields]           v = root.fields
//	["fprintfT", pre, suf, root]       fmt.Fprintf(sb, "pre%Tsuf", root)
//	["init", v, w]                     v := w[:len(w)-1]
//	["last", v, w]                     v := w[len(w)-1]
//	["ctx", source, scope, mode]       ctx := &exprContext{source: source, scope: scope[, mode: mode]}
//	["for", idx, elem, root, fields] … ["end"]
//	["if", cond…] … [["else"] …] ["end"]
//	["return"]                         return nil  /  return sb.String(), nil   (last statement of a unit only)
//	["sprintfD", pre, suf, v]          return fmt.Sprintf("pre%dsuf", v)          (last statement only)
//	["errorf", format]                 return fmt.Errorf("format", …)             (last statement only)
//
// conditions (prefix-coded):
//
//	gt0 i | nonempty root fields | notlast i root fields | isnil root fields | notnil root fields |
//	flag root fields | byteis v "c" | typeis v T root fields (`v, ok := root.fields.(*parser.T); ok`) | or c1 c2
//
// Any other statement or expression shape is an error: the extractor fails as a whole, nothing is
// skipped.  Model/WriteIR.lean decodes and interprets the items; Props/C05WriteIR.lean proves the
// hand-written model equal to the interpretation of what is regenerated here.

import (
	"fmt"
	"go/ast"
	"go/token"
	"sort"
	"strconv"
	"strings"
)

type wItem []string

type wtrans struct {
	ex   *extractor
	unit string
}

func (t *wtrans) errf(n ast.Node, format string, args ...interface{}) error {
	first := strings.SplitN(t.ex.src(n), "\n", 2)[0]
	return fmt.Errorf("writeIR %s: %s: %s", t.unit, fmt.Sprintf(format, args...), first)
}

// path: root variable and field string
func (t *wtrans) path(e ast.Expr) (string, string, bool) {
	switch x := e.(type) {
	case *ast.Ident:
		if x.Name == "nil" || x.Name == "_" {
			return "", "", false
		}
		return x.Name, "", true
	case *ast.SelectorExpr:
		r, f, ok := t.path(x.X)
		if !ok {
			return "", "", false
		}
		return r, joinField(f, x.Sel.Name), true
	case *ast.IndexExpr:
		r, f, ok := t.path(x.X)
		lit, isLit := x.Index.(*ast.BasicLit)
		if !ok || !isLit || lit.Kind != token.INT || f == "" {
			return "", "", false
		}
		return r, f + "[" + lit.Value + "]", true
	case *ast.CallExpr:
		// zero-argument AsQualified(); the conversion []byte(name)
		if sel, ok := x.Fun.(*ast.SelectorExpr); ok && len(x.Args) == 0 && sel.Sel.Name == "AsQualified" {
			r, f, ok := t.path(sel.X)
			if !ok {
				return "", "", false
			}
			return r, joinField(f, "AsQualified()"), true
		}
		if at, ok := x.Fun.(*ast.ArrayType); ok && at.Len == nil && len(x.Args) == 1 {
			if id, ok := at.Elt.(*ast.Ident); ok && id.Name == "byte" {
				if v, ok := x.Args[0].(*ast.Ident); ok {
					return v.Name, "[]byte", true
				}
			}
		}
	}
	return "", "", false
}

func joinField(f, name string) string {
	if f == "" {
		return name
	}
	return f + "." + name
}

func isIdent(e ast.Expr, name string) bool {
	id, ok := e.(*ast.Ident)
	return ok && id.Name == name
}

func isIntLit(e ast.Expr, v string) bool {
	l, ok := e.(*ast.BasicLit)
	return ok && l.Kind == token.INT && l.Value == v
}

// len(P)
func (t *wtrans) lenOf(e ast.Expr) (string, string, bool) {
	c, ok := e.(*ast.CallExpr)
	if !ok || !isIdent(c.Fun, "len") || len(c.Args) != 1 {
		return "", "", false
	}
	return t.path(c.Args[0])
}

// len(w)-1
func (t *wtrans) isLenMinus1(e ast.Expr, w string) bool {
	b, ok := e.(*ast.BinaryExpr)
	if !ok || b.Op != token.SUB || !isIntLit(b.Y, "1") {
		return false
	}
	r, f, ok := t.lenOf(b.X)
	return ok && r == w && f == ""
}

func (t *wtrans) cond(e ast.Expr) ([]string, error) {
	switch x := e.(type) {
	case *ast.ParenExpr:
		return t.cond(x.X)
	case *ast.BinaryExpr:
		switch x.Op {
		case token.LOR:
			a, err := t.cond(x.X)
			if err != nil {
				return nil, err
			}
			b, err := t.cond(x.Y)
			if err != nil {
				return nil, err
			}
			return append(append([]string{"or"}, a...), b...), nil
		case token.GTR:
			if isIntLit(x.Y, "0") {
				if id, ok := x.X.(*ast.Ident); ok {
					return []string{"gt0", id.Name}, nil
				}
				if r, f, ok := t.lenOf(x.X); ok {
					return []string{"nonempty", r, f}, nil
				}
			}
		case token.LSS:
			// i < len(P)-1
			if id, ok := x.X.(*ast.Ident); ok {
				if sub, ok := x.Y.(*ast.BinaryExpr); ok && sub.Op == token.SUB && isIntLit(sub.Y, "1") {
					if r, f, ok := t.lenOf(sub.X); ok {
						return []string{"notlast", id.Name, r, f}, nil
					}
				}
			}
		case token.EQL, token.NEQ:
			if isIdent(x.Y, "nil") {
				if r, f, ok := t.path(x.X); ok && f != "" {
					if x.Op == token.EQL {
						return []string{"isnil", r, f}, nil
					}
					return []string{"notnil", r, f}, nil
				}
			}
			if lit, ok := x.Y.(*ast.BasicLit); ok && lit.Kind == token.CHAR && x.Op == token.EQL {
				if id, ok := x.X.(*ast.Ident); ok {
					c, err := strconv.Unquote(lit.Value)
					if err == nil && len(c) == 1 {
						return []string{"byteis", id.Name, c}, nil
					}
				}
			}
		}
	case *ast.SelectorExpr:
		if r, f, ok := t.path(x); ok {
			return []string{"flag", r, f}, nil
		}
	}
	return nil, t.errf(e, "condition not of a known shape")
}

func strLit(e ast.Expr) (string, bool) {
	l, ok := e.(*ast.BasicLit)
	if !ok || l.Kind != token.STRING {
		return "", false
	}
	s, err := strconv.Unquote(l.Value)
	return s, err == nil
}

// a call statement `f(args)` / `recv.m(args)`
func (t *wtrans) callStmt(call *ast.CallExpr) (wItem, error) {
	if sel, ok := call.Fun.(*ast.SelectorExpr); ok && isIdent(sel.X, "sb") {
		switch sel.Sel.Name {
		case "WriteString":
			if len(call.Args) == 1 {
				if s, ok := strLit(call.Args[0]); ok {
					return wItem{"lit", s}, nil
				}
				if r, f, ok := t.path(call.Args[0]); ok {
					return wItem{"str", r, f}, nil
				}
			}
		case "WriteByte":
			if len(call.Args) == 1 {
				if id, ok := call.Args[0].(*ast.Ident); ok {
					return wItem{"byte", id.Name}, nil
				}
			}
		case "Grow":
			if len(call.Args) == 1 {
				return wItem{"grow"}, nil
			}
		}
		return nil, t.errf(call, "call on sb not of a known shape")
	}
	if sel, ok := call.Fun.(*ast.SelectorExpr); ok && isIdent(sel.X, "fmt") && sel.Sel.Name == "Fprintf" {
		if len(call.Args) == 3 && isIdent(call.Args[0], "sb") {
			if f, ok := strLit(call.Args[1]); ok && strings.Count(f, "%") == 1 && strings.Count(f, "%T") == 1 {
				if id, ok := call.Args[2].(*ast.Ident); ok {
					i := strings.Index(f, "%T")
					return wItem{"fprintfT", f[:i], f[i+2:], id.Name}, nil
				}
			}
		}
		return nil, t.errf(call, "Fprintf not of the shape Fprintf(sb, \"…%%T…\", v)")
	}
	if id, ok := call.Fun.(*ast.Ident); ok && len(call.Args) == 2 && isIdent(call.Args[0], "sb") {
		arg := call.Args[1]
		switch id.Name {
		case "quoteIdentifier":
			if r, f, ok := t.path(arg); ok {
				return wItem{"qid", r, f}, nil
			}
			if b, ok := arg.(*ast.BinaryExpr); ok && b.Op == token.ADD {
				if s, ok := strLit(b.X); ok {
					if r, f, ok := t.path(b.Y); ok {
						return wItem{"qidcat", s, r, f}, nil
					}
				}
			}
			if sl, ok := arg.(*ast.SliceExpr); ok && !sl.Slice3 && sl.Low != nil && sl.High != nil {
				xr, xf, ok1 := t.path(sl.X)
				lr, lf, ok2 := t.path(sl.Low)
				hr, hf, ok3 := t.path(sl.High)
				if ok1 && ok2 && ok3 && xr == "ctx" && xf == "source" && lr == hr && lf == "Start" && hf == "End" {
					return wItem{"qidsrc", lr}, nil
				}
			}
		case "quoteSQLString":
			if r, f, ok := t.path(arg); ok {
				return wItem{"qstr", r, f}, nil
			}
		}
	}
	return nil, t.errf(call, "call not of a known shape")
}

// `if err := F(…); err != nil { return [x,] err }`
func (t *wtrans) errCall(ifs *ast.IfStmt) (wItem, bool) {
	as, ok := ifs.Init.(*ast.AssignStmt)
	if !ok || as.Tok != token.DEFINE || len(as.Lhs) != 1 || len(as.Rhs) != 1 || !isIdent(as.Lhs[0], "err") || ifs.Else != nil {
		return nil, false
	}
	if t.ex.src(ifs.Cond) != "err != nil" || len(ifs.Body.List) != 1 {
		return nil, false
	}
	ret, ok := ifs.Body.List[0].(*ast.ReturnStmt)
	if !ok || len(ret.Results) == 0 || !isIdent(ret.Results[len(ret.Results)-1], "err") {
		return nil, false
	}
	call, ok := as.Rhs[0].(*ast.CallExpr)
	if !ok {
		return nil, false
	}
	if isIdent(call.Fun, "writeExpression") && len(call.Args) == 3 && isIdent(call.Args[0], "ctx") && isIdent(call.Args[1], "sb") {
		if r, f, ok := t.path(call.Args[2]); ok {
			return wItem{"expr", r, f}, true
		}
	}
	if sel, ok := call.Fun.(*ast.SelectorExpr); ok && sel.Sel.Name == "write" && len(call.Args) == 2 &&
		isIdent(call.Args[0], "ctx") && isIdent(call.Args[1], "sb") {
		if id, ok := sel.X.(*ast.Ident); ok {
			return wItem{"call", "write", id.Name}, true
		}
	}
	return nil, false
}

func (t *wtrans) assign(as *ast.AssignStmt) (wItem, error) {
	if len(as.Lhs) != 1 || len(as.Rhs) != 1 {
		return nil, t.errf(as, "assignment not of a known shape")
	}
	v, ok := as.Lhs[0].(*ast.Ident)
	if !ok {
		return nil, t.errf(as, "assignment target is not a variable")
	}
	rhs := as.Rhs[0]
	if as.Tok == token.ASSIGN {
		if r, f, ok := t.path(rhs); ok {
			return wItem{"set", v.Name, r, f}, nil
		}
		return nil, t.errf(as, "assigned value is not a path")
	}
	if as.Tok != token.DEFINE {
		return nil, t.errf(as, "assignment operator")
	}
	if s, ok := strLit(rhs); ok {
		return wItem{"declstr", v.Name, s}, nil
	}
	// v := P.Span()
	if call, ok := rhs.(*ast.CallExpr); ok && len(call.Args) == 0 {
		if sel, ok := call.Fun.(*ast.SelectorExpr); ok && sel.Sel.Name == "Span" {
			if r, f, ok := t.path(sel.X); ok {
				return wItem{"span", v.Name, r, f}, nil
			}
		}
	}
	// v := w[:len(w)-1]
	if sl, ok := rhs.(*ast.SliceExpr); ok && sl.Low == nil && sl.High != nil && !sl.Slice3 {
		if w, ok := sl.X.(*ast.Ident); ok && t.isLenMinus1(sl.High, w.Name) {
			return wItem{"init", v.Name, w.Name}, nil
		}
	}
	// v := w[len(w)-1]
	if ix, ok := rhs.(*ast.IndexExpr); ok {
		if w, ok := ix.X.(*ast.Ident); ok && t.isLenMinus1(ix.Index, w.Name) {
			return wItem{"last", v.Name, w.Name}, nil
		}
	}
	// ctx := &exprContext{source: S, scope: C[, mode: M]}
	if u, ok := rhs.(*ast.UnaryExpr); ok && u.Op == token.AND && v.Name == "ctx" {
		if cl, ok := u.X.(*ast.CompositeLit); ok && isIdent(cl.Type, "exprContext") {
			vals := map[string]string{}
			for _, el := range cl.Elts {
				kv, ok := el.(*ast.KeyValueExpr)
				if !ok {
					return nil, t.errf(as, "exprContext literal without keys")
				}
				k, ok1 := kv.Key.(*ast.Ident)
				val, ok2 := kv.Value.(*ast.Ident)
				if !ok1 || !ok2 || (k.Name != "source" && k.Name != "scope" && k.Name != "mode") {
					return nil, t.errf(as, "exprContext literal field")
				}
				vals[k.Name] = val.Name
			}
			return wItem{"ctx", vals["source"], vals["scope"], vals["mode"]}, nil
		}
	}
	return nil, t.errf(as, "definition not of a known shape")
}

// a statement list; `top` = the list is the body of a unit (a final return is allowed)
func (t *wtrans) stmts(list []ast.Stmt, top bool) ([]wItem, error) {
	var out []wItem
	for i, st := range list {
		last := top && i == len(list)-1
		switch s := st.(type) {
		case *ast.ExprStmt:
			call, ok := s.X.(*ast.CallExpr)
			if !ok {
				return nil, t.errf(st, "expression statement is not a call")
			}
			it, err := t.callStmt(call)
			if err != nil {
				return nil, err
			}
			out = append(out, it)
		case *ast.AssignStmt:
			it, err := t.assign(s)
			if err != nil {
				return nil, err
			}
			out = append(out, it)
		case *ast.DeclStmt:
			gd, ok := s.Decl.(*ast.GenDecl)
			if !ok || gd.Tok != token.CONST || len(gd.Specs) != 1 {
				return nil, t.errf(st, "declaration is not a single constant")
			}
			vs := gd.Specs[0].(*ast.ValueSpec)
			if len(vs.Names) != 1 || len(vs.Values) != 1 || vs.Type != nil {
				return nil, t.errf(st, "constant declaration shape")
			}
			v, ok := strLit(vs.Values[0])
			if !ok {
				return nil, t.errf(st, "constant is not a string literal")
			}
			out = append(out, wItem{"declstr", vs.Names[0].Name, v})
		case *ast.IfStmt:
			its, err := t.ifStmt(s)
			if err != nil {
				return nil, err
			}
			out = append(out, its...)
		case *ast.RangeStmt:
			if s.Tok != token.DEFINE || s.Value == nil || s.Key == nil {
				return nil, t.errf(st, "range loop without key and value variables")
			}
			k, ok1 := s.Key.(*ast.Ident)
			v, ok2 := s.Value.(*ast.Ident)
			r, f, ok3 := t.path(s.X)
			if !ok1 || !ok2 || !ok3 || v.Name == "_" {
				return nil, t.errf(st, "range loop shape")
			}
			body, err := t.stmts(s.Body.List, false)
			if err != nil {
				return nil, err
			}
			out = append(out, wItem{"for", k.Name, v.Name, r, f})
			out = append(out, body...)
			out = append(out, wItem{"end"})
		case *ast.ReturnStmt:
			if !last {
				return nil, t.errf(st, "return that is not the last statement of the unit")
			}
			it, err := t.ret(s)
			if err != nil {
				return nil, err
			}
			out = append(out, it)
		default:
			return nil, t.errf(st, "statement not of a known shape (%T)", st)
		}
	}
	return out, nil
}

func (t *wtrans) ret(s *ast.ReturnStmt) (wItem, error) {
	switch len(s.Results) {
	case 1:
		if isIdent(s.Results[0], "nil") {
			return wItem{"return"}, nil
		}
		if call, ok := s.Results[0].(*ast.CallExpr); ok {
			if sel, ok := call.Fun.(*ast.SelectorExpr); ok && isIdent(sel.X, "fmt") && len(call.Args) >= 1 {
				f, ok := strLit(call.Args[0])
				if ok && sel.Sel.Name == "Sprintf" && len(call.Args) == 2 && strings.Count(f, "%") == 1 && strings.Count(f, "%d") == 1 {
					if id, ok := call.Args[1].(*ast.Ident); ok {
						i := strings.Index(f, "%d")
						return wItem{"sprintfD", f[:i], f[i+2:], id.Name}, nil
					}
				}
				if ok && sel.Sel.Name == "Errorf" {
					return wItem{"errorf", f}, nil
				}
			}
		}
	case 2:
		if t.ex.src(s.Results[0]) == "sb.String()" && isIdent(s.Results[1], "nil") {
			return wItem{"return"}, nil
		}
	}
	return nil, t.errf(s, "return not of a known shape")
}

func (t *wtrans) ifStmt(s *ast.IfStmt) ([]wItem, error) {
	if s.Init != nil {
		if it, ok := t.errCall(s); ok {
			return []wItem{it}, nil
		}
	}
	var cond []string
	if s.Init != nil {
		// v, ok := P.(*parser.T); ok
		as, ok := s.Init.(*ast.AssignStmt)
		if !ok || as.Tok != token.DEFINE || len(as.Lhs) != 2 || len(as.Rhs) != 1 || !isIdent(as.Lhs[1], "ok") || !isIdent(s.Cond, "ok") {
			return nil, t.errf(s, "if with an initialiser that is neither a writer call nor a type assertion")
		}
		v, ok1 := as.Lhs[0].(*ast.Ident)
		ta, ok2 := as.Rhs[0].(*ast.TypeAssertExpr)
		if !ok1 || !ok2 || ta.Type == nil {
			return nil, t.errf(s, "type assertion shape")
		}
		star, ok := ta.Type.(*ast.StarExpr)
		if !ok {
			return nil, t.errf(s, "asserted type is not a pointer")
		}
		r, f, ok := t.path(ta.X)
		if !ok {
			return nil, t.errf(s, "asserted value is not a path")
		}
		cond = []string{"typeis", v.Name, selName(star.X), r, f}
	} else {
		c, err := t.cond(s.Cond)
		if err != nil {
			return nil, err
		}
		cond = c
	}
	out := []wItem{append(wItem{"if"}, cond...)}
	body, err := t.stmts(s.Body.List, false)
	if err != nil {
		return nil, err
	}
	out = append(out, body...)
	switch e := s.Else.(type) {
	case nil:
	case *ast.BlockStmt:
		eb, err := t.stmts(e.List, false)
		if err != nil {
			return nil, err
		}
		out = append(out, wItem{"else"})
		out = append(out, eb...)
	case *ast.IfStmt:
		eb, err := t.ifStmt(e)
		if err != nil {
			return nil, err
		}
		out = append(out, wItem{"else"})
		out = append(out, eb...)
	default:
		return nil, t.errf(s, "else part")
	}
	out = append(out, wItem{"end"})
	return out, nil
}

// a function whose body starts with `switch v := P.(type)`: one unit per case (the statements after
// the switch are returned separately)
func (ex *extractor) typeSwitchUnits(fd *ast.FuncDecl, name string, units map[string][]wItem) (header []string, cases [][]string, rest []ast.Stmt, err error) {
	if len(fd.Body.List) == 0 {
		return nil, nil, nil, fmt.Errorf("writeIR %s: empty body", name)
	}
	ts, ok := fd.Body.List[0].(*ast.TypeSwitchStmt)
	if !ok || ts.Init != nil {
		return nil, nil, nil, fmt.Errorf("writeIR %s: body does not start with a type switch", name)
	}
	t := &wtrans{ex: ex, unit: name}
	as, ok := ts.Assign.(*ast.AssignStmt)
	if !ok || len(as.Lhs) != 1 || len(as.Rhs) != 1 {
		return nil, nil, nil, fmt.Errorf("writeIR %s: type switch does not bind a variable", name)
	}
	ta, ok := as.Rhs[0].(*ast.TypeAssertExpr)
	if !ok || ta.Type != nil {
		return nil, nil, nil, fmt.Errorf("writeIR %s: type switch subject", name)
	}
	r, f, ok := t.path(ta.X)
	if !ok {
		return nil, nil, nil, fmt.Errorf("writeIR %s: type switch subject is not a path", name)
	}
	header = []string{selName(as.Lhs[0]), r, f}
	for _, c := range ts.Body.List {
		cc := c.(*ast.CaseClause)
		names := []string{"default"}
		if cc.List != nil {
			names = caseNames(cc)
		}
		key := name + ":" + strings.Join(names, ",")
		t.unit = key
		its, err := t.stmts(cc.Body, true)
		if err != nil {
			return nil, nil, nil, err
		}
		if _, dup := units[key]; dup {
			return nil, nil, nil, fmt.Errorf("writeIR %s: duplicate case", key)
		}
		units[key] = its
		cases = append(cases, names)
	}
	return header, cases, fd.Body.List[1:], nil
}


func (ex *extractor) writeIR(sb *strings.Builder) error {
	units := map[string][]wItem{}

	// (*subquery).write
	wfd := ex.funcDecl("pql", "*subquery", "write")
	if wfd == nil {
		return fmt.Errorf("writeIR: (*subquery).write not found")
	}
	wHeader, wCases, rest, err := ex.typeSwitchUnits(wfd, "write", units)
	if err != nil {
		return err
	}
	t := &wtrans{ex: ex, unit: "write:suffix"}
	its, err := t.stmts(rest, true)
	if err != nil {
		return err
	}
	units["write:suffix"] = its

	// dataSourceSQL
	dfd := ex.funcDecl("pql", "", "dataSourceSQL")
	if dfd == nil {
		return fmt.Errorf("writeIR: dataSourceSQL not found")
	}
	dHeader, dCases, rest, err := ex.typeSwitchUnits(dfd, "dataSourceSQL", units)
	if err != nil {
		return err
	}
	if len(rest) != 0 {
		return fmt.Errorf("writeIR dataSourceSQL: statements after the type switch")
	}

	// whole bodies
	for _, name := range []string{"quoteIdentifier", "quoteSQLString", "subqueryName"} {
		fd := ex.funcDecl("pql", "", name)
		if fd == nil {
			return fmt.Errorf("writeIR: %s not found", name)
		}
		t := &wtrans{ex: ex, unit: name}
		its, err := t.stmts(fd.Body.List, true)
		if err != nil {
			return err
		}
		units[name] = its
	}

	// Compile: the statement assembly, from `sb := new(strings.Builder)` at the top level to the end
	cfd := ex.funcDecl("pql", "*CompileOptions", "Compile")
	if cfd == nil {
		return fmt.Errorf("writeIR: (*CompileOptions).Compile not found")
	}
	start := -1
	for i, st := range cfd.Body.List {
		if ex.src(st) == "sb := new(strings.Builder)" {
			if start >= 0 {
				return fmt.Errorf("writeIR Compile: two top-level string builders")
			}
			start = i
		}
	}
	if start < 0 {
		return fmt.Errorf("writeIR Compile: `sb := new(strings.Builder)` not found at the top level")
	}
	// the slice the assembly reads must be what splitQueries returned for the whole statement
	if start < 2 || ex.src(cfd.Body.List[start-2]) != "subqueries, err := splitQueries(nil, source, scope, expr)" {
		return fmt.Errorf("writeIR Compile: the assembly is not preceded by `subqueries, err := splitQueries(nil, source, scope, expr)`")
	}
	t = &wtrans{ex: ex, unit: "Compile"}
	its, err = t.stmts(cfd.Body.List[start+1:], true)
	if err != nil {
		return err
	}
	units["Compile"] = its

	var keys []string
	for k := range units {
		keys = append(keys, k)
	}
	sort.Strings(keys)
	sb.WriteString("/-- pql.go: the imperative writer layer as a flat prefix-coded IR (see harness/extract_write.go):\n")
	sb.WriteString("    the cases of the type switch of `(*subquery).write` and its ORDER BY / LIMIT suffix, the statement\n")
	sb.WriteString("    assembly of `Compile`, `subqueryName`, `dataSourceSQL`, `quoteIdentifier`, `quoteSQLString` -/\n")
	sb.WriteString("def writeIR : List (String × List (List String)) :=\n  [")
	for i, k := range keys {
		if i > 0 {
			sb.WriteString(",\n   ")
		}
		fmt.Fprintf(sb, "(%s, [", leanStr(k))
		for j, it := range units[k] {
			if j > 0 {
				sb.WriteString(", ")
			}
			sb.WriteString(leanStrList(it))
		}
		sb.WriteString("])")
	}
	sb.WriteString("]\n\n")
	sb.WriteString("/-- the type switches: (function, [bound variable, subject root, subject field],\n")
	sb.WriteString("    cases in source order: (type labels, key of the unit in `writeIR`)) -/\n")
	sb.WriteString("def writeSwitches : List (String × List String × List (List String × String)) :=\n  [")
	for i, sw := range []struct {
		name   string
		header []string
		cases  [][]string
	}{{"dataSourceSQL", dHeader, dCases}, {"write", wHeader, wCases}} {
		if i > 0 {
			sb.WriteString(",\n   ")
		}
		fmt.Fprintf(sb, "(%s, %s, [", leanStr(sw.name), leanStrList(sw.header))
		for j, c := range sw.cases {
			if j > 0 {
				sb.WriteString(", ")
			}
			fmt.Fprintf(sb, "(%s, %s)", leanStrList(c), leanStr(sw.name+":"+strings.Join(c, ",")))
		}
		sb.WriteString("])")
	}
	sb.WriteString("]\n\n")
	return nil
}
