package main

// Translator for the imperative, cursor-level code of the lexer and of a few small functions next
// to it.  Every function becomes a flat, prefix-coded list of items (an item is a list of strings);
// blocks are closed by ["end"], an `if` may have an ["else"] part; expressions (conditions are
// expressions of type bool) are prefix-coded inside an item after the item's fixed arguments and
// are self-delimiting.
//
//	lexNumberIR   parser/span.go newSpan, indexSpan, Span.IsValid, spanString; parser/lex.go
//	              (*scanner).next, prev, setPos, normalizeNumberValue, (*scanner).numberExponent,
//	              (*scanner).numberOrDot
//	lexSplitIR    parser/lex.go SplitStatements
//	linecolIR     parser/parser.go linecol and pql.go linecol (two keys: parser.linecol, pql.linecol)
//	litAccessIR   parser/ast.go (*BasicLit).IsFloat, IsInteger, Uint64
//
// header of a function
//
//	["func", r, T]                     the receiver `(r T)` ("" "" for a plain function)
//	["param", v, T]                    one per parameter, in order
//	["result", v, T]                   one per result, in order (v = "" when the result is unnamed)
//
// statements
//
//	["def", v, E…]                     v := E            (also `const v = E`)
//	["def2", a, b, E…]                 a, b := E         (E a call with two results; "_" for a blank)
//	["set", v, E…]                     v = E             (`v op= E`, `v++`, `v--` are written as v = v op E;
//	                                                      `a, b = k1, k2` with literal right sides as two sets)
//	["set2", a, b, E…]                 a, b = E
//	["setfld", r, f, E…]               r.f = E           (r a variable; `r.f op= E` as r.f = r.f op E)
//	["var", v, T]                      var v T
//	["do", E…]                         E                 (a call, results dropped)
//	["if", E…] … [["else"] …] ["end"]
//	                                   also what `switch { case A: X; case B: Y; default: Z }` and
//	                                   `switch v { case k: X … }` are written as: if A {X} else {if B {Y} else {Z}}
//	                                   (conditions `v == k`; a `break` that would leave a switch is refused)
//	["forever"] … ["end"]              for { … }
//	["range", v, E…] … ["end"]         for _, v := range E { … }
//	["break"]                          leaves the innermost loop
//	["defer"] … ["end"]                defer func() { … }()       (top level of the function body only)
//	["return", E…, E…]                 return E, E       (no expression: the named results)
//
// expressions E
//
//	var v | int n (integer and character literals) | str "text" | true | false | nil | kind K (a
//	TokenKind constant) | none (an omitted slice bound) | fld E f (E.f) | not E | and|or|eq|ne|lt|le|gt|ge|
//	add|sub|mod E E | len E | index E E (E[E]) | slice E E E (E[E:E]) | mktoken E E E (Token{Kind, Span,
//	Value}; an omitted Value is str "") | mkspan E E (Span{Start, End}) | call f n E…  (f a function name,
//	`Type.method` with the receiver as first argument for `v.method(…)` with v a receiver or parameter
//	of declared type Type, `pkg.Name` for an imported package; n the number of arguments)
//
// Anything else — any other statement, expression, operator, a labelled branch, a `:=` that would
// re-use a variable of the same scope, a call through a function value — is an error: the step fails
// (its section of Facts.lean is then taken from the committed copy and the run says so), nothing is
// skipped.  Model/LexIR.lean decodes and interprets the items; Props/C09NumberIR.lean,
// C15SplitIR.lean, C10LinecolIR.lean prove the hand-written model functions equal to the
// interpretation of what is regenerated here.

import (
	"fmt"
	"go/ast"
	"go/token"
	"strconv"
	"strings"
)

type lxFuncSpec struct{ pkg, recv, name, key string }

type lxtrans struct {
	ex      *extractor
	pkg     string
	unit    string
	scopes  []map[string]string // innermost last: variable -> declared type ("" = not declared with a type)
	imports map[string]bool
	ctx     []string // enclosing breakable statements and closures: "for", "switch", "defer"
}

func (t *lxtrans) errf(n ast.Node, format string, args ...interface{}) error {
	first := strings.SplitN(t.ex.src(n), "\n", 2)[0]
	return fmt.Errorf("lexIR %s: %s: %s", t.unit, fmt.Sprintf(format, args...), first)
}

func (t *lxtrans) push()                  { t.scopes = append(t.scopes, map[string]string{}) }
func (t *lxtrans) pop()                   { t.scopes = t.scopes[:len(t.scopes)-1] }
func (t *lxtrans) declare(v, ty string)   { t.scopes[len(t.scopes)-1][v] = ty }
func (t *lxtrans) inInnermost(v string) bool {
	_, ok := t.scopes[len(t.scopes)-1][v]
	return ok
}
func (t *lxtrans) lookup(v string) (string, bool) {
	for i := len(t.scopes) - 1; i >= 0; i-- {
		if ty, ok := t.scopes[i][v]; ok {
			return ty, true
		}
	}
	return "", false
}

// a constant of the package the function lives in whose name starts with "Token"
func (t *lxtrans) isKindConst(name string) bool {
	if !strings.HasPrefix(name, "Token") {
		return false
	}
	for _, f := range t.ex.pkgs[t.pkg] {
		for _, d := range f.Decls {
			gd, ok := d.(*ast.GenDecl)
			if !ok || gd.Tok != token.CONST {
				continue
			}
			for _, s := range gd.Specs {
				for _, n := range s.(*ast.ValueSpec).Names {
					if n.Name == name {
						return true
					}
				}
			}
		}
	}
	return false
}

var lxBinOps = map[token.Token]string{
	token.LAND: "and", token.LOR: "or", token.EQL: "eq", token.NEQ: "ne", token.LSS: "lt", token.LEQ: "le",
	token.GTR: "gt", token.GEQ: "ge", token.ADD: "add", token.SUB: "sub", token.REM: "mod",
}

func lxCat(parts ...[]string) []string {
	var out []string
	for _, p := range parts {
		out = append(out, p...)
	}
	return out
}

func (t *lxtrans) exprs(list []ast.Expr) ([]string, error) {
	var out []string
	for _, e := range list {
		x, err := t.expr(e)
		if err != nil {
			return nil, err
		}
		out = append(out, x...)
	}
	return out, nil
}

func (t *lxtrans) optExpr(e ast.Expr) ([]string, error) {
	if e == nil {
		return []string{"none"}, nil
	}
	return t.expr(e)
}

func (t *lxtrans) expr(e ast.Expr) ([]string, error) {
	switch x := e.(type) {
	case *ast.ParenExpr:
		return t.expr(x.X)
	case *ast.Ident:
		switch x.Name {
		case "true", "false", "nil":
			if _, shadowed := t.lookup(x.Name); shadowed {
				return nil, t.errf(e, "predeclared name shadowed")
			}
			return []string{x.Name}, nil
		case "_":
			return nil, t.errf(e, "blank identifier as a value")
		}
		if _, ok := t.lookup(x.Name); ok {
			return []string{"var", x.Name}, nil
		}
		if t.isKindConst(x.Name) {
			return []string{"kind", x.Name}, nil
		}
		return nil, t.errf(e, "identifier is neither a local variable nor a TokenKind constant")
	case *ast.BasicLit:
		switch x.Kind {
		case token.INT:
			if _, err := strconv.ParseUint(x.Value, 10, 31); err == nil {
				return []string{"int", x.Value}, nil
			}
		case token.CHAR:
			s, err := strconv.Unquote(x.Value)
			if err == nil {
				r := []rune(s)
				if len(r) == 1 {
					return []string{"int", strconv.Itoa(int(r[0]))}, nil
				}
			}
		case token.STRING:
			if s, ok := strLit(x); ok {
				return []string{"str", s}, nil
			}
		}
		return nil, t.errf(e, "literal not of a known shape")
	case *ast.UnaryExpr:
		if x.Op == token.NOT {
			a, err := t.expr(x.X)
			if err != nil {
				return nil, err
			}
			return lxCat([]string{"not"}, a), nil
		}
		return nil, t.errf(e, "unary operator %s", x.Op)
	case *ast.BinaryExpr:
		op, ok := lxBinOps[x.Op]
		if !ok {
			return nil, t.errf(e, "binary operator %s", x.Op)
		}
		a, err := t.expr(x.X)
		if err != nil {
			return nil, err
		}
		b, err := t.expr(x.Y)
		if err != nil {
			return nil, err
		}
		return lxCat([]string{op}, a, b), nil
	case *ast.SelectorExpr:
		if id, ok := x.X.(*ast.Ident); ok {
			if _, isVar := t.lookup(id.Name); !isVar {
				return nil, t.errf(e, "selector on something that is not a local variable")
			}
		}
		a, err := t.expr(x.X)
		if err != nil {
			return nil, err
		}
		return lxCat([]string{"fld"}, a, []string{x.Sel.Name}), nil
	case *ast.SliceExpr:
		if x.Slice3 {
			return nil, t.errf(e, "three-index slice")
		}
		a, err := t.expr(x.X)
		if err != nil {
			return nil, err
		}
		lo, err := t.optExpr(x.Low)
		if err != nil {
			return nil, err
		}
		hi, err := t.optExpr(x.High)
		if err != nil {
			return nil, err
		}
		return lxCat([]string{"slice"}, a, lo, hi), nil
	case *ast.IndexExpr:
		a, err := t.expr(x.X)
		if err != nil {
			return nil, err
		}
		i, err := t.expr(x.Index)
		if err != nil {
			return nil, err
		}
		return lxCat([]string{"index"}, a, i), nil
	case *ast.CompositeLit:
		return t.composite(x)
	case *ast.CallExpr:
		return t.call(x)
	}
	return nil, t.errf(e, "expression not of a known shape (%T)", e)
}

func (t *lxtrans) composite(x *ast.CompositeLit) ([]string, error) {
	ty, ok := x.Type.(*ast.Ident)
	if !ok || (ty.Name != "Token" && ty.Name != "Span") {
		return nil, t.errf(x, "composite literal of a type other than Token / Span")
	}
	if _, shadowed := t.lookup(ty.Name); shadowed {
		return nil, t.errf(x, "type name shadowed")
	}
	fields := map[string][]string{}
	for _, el := range x.Elts {
		kv, ok := el.(*ast.KeyValueExpr)
		if !ok {
			return nil, t.errf(x, "composite literal with an unkeyed element")
		}
		k, ok := kv.Key.(*ast.Ident)
		if !ok {
			return nil, t.errf(x, "composite literal key")
		}
		if _, dup := fields[k.Name]; dup {
			return nil, t.errf(x, "duplicate field")
		}
		v, err := t.expr(kv.Value)
		if err != nil {
			return nil, err
		}
		fields[k.Name] = v
	}
	want := []string{"Start", "End"}
	if ty.Name == "Token" {
		want = []string{"Kind", "Span", "Value"}
	}
	for k := range fields {
		known := false
		for _, w := range want {
			known = known || w == k
		}
		if !known {
			return nil, t.errf(x, "field %s", k)
		}
	}
	if ty.Name == "Span" {
		if len(fields) != 2 {
			return nil, t.errf(x, "Span literal without both Start and End")
		}
		return lxCat([]string{"mkspan"}, fields["Start"], fields["End"]), nil
	}
	if fields["Kind"] == nil || fields["Span"] == nil {
		return nil, t.errf(x, "Token literal without Kind or Span")
	}
	val := fields["Value"]
	if val == nil {
		val = []string{"str", ""}
	}
	return lxCat([]string{"mktoken"}, fields["Kind"], fields["Span"], val), nil
}

func (t *lxtrans) call(x *ast.CallExpr) ([]string, error) {
	if x.Ellipsis != token.NoPos {
		return nil, t.errf(x, "variadic spread")
	}
	args, err := t.exprs(x.Args)
	if err != nil {
		return nil, err
	}
	switch f := x.Fun.(type) {
	case *ast.Ident:
		if _, isVar := t.lookup(f.Name); isVar || f.Name == "_" {
			return nil, t.errf(x, "call through a variable")
		}
		if f.Name == "len" {
			if len(x.Args) != 1 {
				return nil, t.errf(x, "len")
			}
			return lxCat([]string{"len"}, args), nil
		}
		switch f.Name {
		case "panic", "recover", "new", "make", "cap", "copy", "delete", "print", "println", "min", "max", "clear":
			return nil, t.errf(x, "builtin %s", f.Name)
		}
		return lxCat([]string{"call", f.Name, strconv.Itoa(len(x.Args))}, args), nil
	case *ast.SelectorExpr:
		id, ok := f.X.(*ast.Ident)
		if !ok {
			return nil, t.errf(x, "method call on something that is not a variable")
		}
		if ty, isVar := t.lookup(id.Name); isVar {
			if ty == "" {
				return nil, t.errf(x, "method call on a variable without a declared type")
			}
			key := strings.TrimPrefix(ty, "*") + "." + f.Sel.Name
			return lxCat([]string{"call", key, strconv.Itoa(len(x.Args) + 1), "var", id.Name}, args), nil
		}
		if t.imports[id.Name] {
			return lxCat([]string{"call", id.Name + "." + f.Sel.Name, strconv.Itoa(len(x.Args))}, args), nil
		}
		return nil, t.errf(x, "call on a name that is neither a typed variable nor an imported package")
	}
	return nil, t.errf(x, "callee not of a known shape")
}

func lxIsLiteral(e ast.Expr) bool {
	switch x := e.(type) {
	case *ast.BasicLit:
		return true
	case *ast.Ident:
		return x.Name == "true" || x.Name == "false"
	}
	return false
}

// `lhs = E` with lhs a variable or `r.f` on a variable
func (t *lxtrans) store(n ast.Node, lhs ast.Expr, rhs []string) (wItem, error) {
	switch l := lhs.(type) {
	case *ast.Ident:
		if _, ok := t.lookup(l.Name); !ok {
			return nil, t.errf(n, "assignment to something that is not a local variable")
		}
		return lxCat([]string{"set", l.Name}, rhs), nil
	case *ast.SelectorExpr:
		r, ok := l.X.(*ast.Ident)
		if !ok {
			return nil, t.errf(n, "assignment to a nested field")
		}
		if _, ok := t.lookup(r.Name); !ok {
			return nil, t.errf(n, "assignment to a field of something that is not a local variable")
		}
		return lxCat([]string{"setfld", r.Name, l.Sel.Name}, rhs), nil
	}
	return nil, t.errf(n, "assignment target")
}

func (t *lxtrans) newVar(n ast.Node, e ast.Expr) (string, error) {
	id, ok := e.(*ast.Ident)
	if !ok {
		return "", t.errf(n, "definition of something that is not a name")
	}
	if id.Name == "_" {
		return "_", nil
	}
	if t.inInnermost(id.Name) {
		return "", t.errf(n, "`:=` re-uses %s of the same scope", id.Name)
	}
	switch id.Name {
	case "true", "false", "nil", "len", "append", "uint64", "Token", "Span":
		return "", t.errf(n, "definition shadows %s", id.Name)
	}
	if t.imports[id.Name] {
		return "", t.errf(n, "definition shadows package %s", id.Name)
	}
	return id.Name, nil
}

func (t *lxtrans) assign(as *ast.AssignStmt) ([]wItem, error) {
	switch as.Tok {
	case token.DEFINE:
		if len(as.Rhs) != 1 {
			return nil, t.errf(as, "definition with several right sides")
		}
		rhs, err := t.expr(as.Rhs[0])
		if err != nil {
			return nil, err
		}
		switch len(as.Lhs) {
		case 1:
			v, err := t.newVar(as, as.Lhs[0])
			if err != nil {
				return nil, err
			}
			if v == "_" {
				return nil, t.errf(as, "blank definition")
			}
			t.declare(v, "")
			return []wItem{lxCat([]string{"def", v}, rhs)}, nil
		case 2:
			if _, ok := as.Rhs[0].(*ast.CallExpr); !ok {
				return nil, t.errf(as, "two-valued definition from something that is not a call")
			}
			a, err := t.newVar(as, as.Lhs[0])
			if err != nil {
				return nil, err
			}
			b, err := t.newVar(as, as.Lhs[1])
			if err != nil {
				return nil, err
			}
			if a == b && a != "_" {
				return nil, t.errf(as, "same name twice")
			}
			if a != "_" {
				t.declare(a, "")
			}
			if b != "_" {
				t.declare(b, "")
			}
			return []wItem{lxCat([]string{"def2", a, b}, rhs)}, nil
		}
		return nil, t.errf(as, "definition of more than two names")
	case token.ASSIGN:
		if len(as.Lhs) == 1 && len(as.Rhs) == 1 {
			rhs, err := t.expr(as.Rhs[0])
			if err != nil {
				return nil, err
			}
			it, err := t.store(as, as.Lhs[0], rhs)
			if err != nil {
				return nil, err
			}
			return []wItem{it}, nil
		}
		if len(as.Lhs) == 2 && len(as.Rhs) == 1 {
			if _, ok := as.Rhs[0].(*ast.CallExpr); !ok {
				return nil, t.errf(as, "two-valued assignment from something that is not a call")
			}
			rhs, err := t.expr(as.Rhs[0])
			if err != nil {
				return nil, err
			}
			var names []string
			for _, l := range as.Lhs {
				id, ok := l.(*ast.Ident)
				if !ok {
					return nil, t.errf(as, "two-valued assignment to something that is not a variable")
				}
				if _, ok := t.lookup(id.Name); !ok && id.Name != "_" {
					return nil, t.errf(as, "assignment to something that is not a local variable")
				}
				names = append(names, id.Name)
			}
			if names[0] == names[1] {
				return nil, t.errf(as, "same name twice")
			}
			return []wItem{lxCat([]string{"set2", names[0], names[1]}, rhs)}, nil
		}
		if len(as.Lhs) == len(as.Rhs) {
			// a, b = k1, k2 with literal right sides: the order does not matter
			seen := map[string]bool{}
			var out []wItem
			for i, l := range as.Lhs {
				id, ok := l.(*ast.Ident)
				if !ok || !lxIsLiteral(as.Rhs[i]) || seen[id.Name] {
					return nil, t.errf(as, "parallel assignment not of the shape `a, b = literal, literal`")
				}
				seen[id.Name] = true
				rhs, err := t.expr(as.Rhs[i])
				if err != nil {
					return nil, err
				}
				it, err := t.store(as, l, rhs)
				if err != nil {
					return nil, err
				}
				out = append(out, it)
			}
			return out, nil
		}
		return nil, t.errf(as, "assignment not of a known shape")
	case token.ADD_ASSIGN, token.SUB_ASSIGN:
		if len(as.Lhs) != 1 || len(as.Rhs) != 1 {
			return nil, t.errf(as, "compound assignment")
		}
		op := "add"
		if as.Tok == token.SUB_ASSIGN {
			op = "sub"
		}
		cur, err := t.expr(as.Lhs[0])
		if err != nil {
			return nil, err
		}
		rhs, err := t.expr(as.Rhs[0])
		if err != nil {
			return nil, err
		}
		it, err := t.store(as, as.Lhs[0], lxCat([]string{op}, cur, rhs))
		if err != nil {
			return nil, err
		}
		return []wItem{it}, nil
	}
	return nil, t.errf(as, "assignment operator %s", as.Tok)
}

func (t *lxtrans) block(list []ast.Stmt) ([]wItem, error) {
	t.push()
	defer t.pop()
	return t.stmts(list)
}

func (t *lxtrans) stmts(list []ast.Stmt) ([]wItem, error) {
	var out []wItem
	for _, st := range list {
		its, err := t.stmt(st)
		if err != nil {
			return nil, err
		}
		out = append(out, its...)
	}
	return out, nil
}

func (t *lxtrans) within(kind string, f func() ([]wItem, error)) ([]wItem, error) {
	t.ctx = append(t.ctx, kind)
	defer func() { t.ctx = t.ctx[:len(t.ctx)-1] }()
	return f()
}

func (t *lxtrans) inDefer() bool {
	for _, c := range t.ctx {
		if c == "defer" {
			return true
		}
	}
	return false
}

func (t *lxtrans) stmt(st ast.Stmt) ([]wItem, error) {
	switch s := st.(type) {
	case *ast.AssignStmt:
		return t.assign(s)
	case *ast.IncDecStmt:
		op := "add"
		if s.Tok == token.DEC {
			op = "sub"
		}
		cur, err := t.expr(s.X)
		if err != nil {
			return nil, err
		}
		it, err := t.store(s, s.X, lxCat([]string{op}, cur, []string{"int", "1"}))
		if err != nil {
			return nil, err
		}
		return []wItem{it}, nil
	case *ast.DeclStmt:
		gd, ok := s.Decl.(*ast.GenDecl)
		if !ok || len(gd.Specs) != 1 {
			return nil, t.errf(st, "declaration is not a single specification")
		}
		vs, ok := gd.Specs[0].(*ast.ValueSpec)
		if !ok || len(vs.Names) != 1 {
			return nil, t.errf(st, "declaration is not of a single name")
		}
		v, err := t.newVar(st, vs.Names[0])
		if err != nil {
			return nil, err
		}
		if v == "_" {
			return nil, t.errf(st, "blank declaration")
		}
		switch {
		case gd.Tok == token.VAR && len(vs.Values) == 0 && vs.Type != nil:
			ty := typeString(vs.Type)
			t.declare(v, ty)
			return []wItem{{"var", v, ty}}, nil
		case gd.Tok == token.CONST && len(vs.Values) == 1 && vs.Type == nil:
			rhs, err := t.expr(vs.Values[0])
			if err != nil {
				return nil, err
			}
			t.declare(v, "")
			return []wItem{lxCat([]string{"def", v}, rhs)}, nil
		}
		return nil, t.errf(st, "declaration not of the shape `var v T` / `const v = E`")
	case *ast.ExprStmt:
		call, ok := s.X.(*ast.CallExpr)
		if !ok {
			return nil, t.errf(st, "expression statement is not a call")
		}
		e, err := t.call(call)
		if err != nil {
			return nil, err
		}
		if e[0] != "call" {
			return nil, t.errf(st, "expression statement is not a function call")
		}
		return []wItem{lxCat([]string{"do"}, e)}, nil
	case *ast.IfStmt:
		return t.ifStmt(s)
	case *ast.SwitchStmt:
		return t.switchStmt(s)
	case *ast.ForStmt:
		if s.Init != nil || s.Cond != nil || s.Post != nil {
			return nil, t.errf(st, "for loop not of the shape `for { … }`")
		}
		body, err := t.within("for", func() ([]wItem, error) { return t.block(s.Body.List) })
		if err != nil {
			return nil, err
		}
		return append(append([]wItem{{"forever"}}, body...), wItem{"end"}), nil
	case *ast.RangeStmt:
		if s.Tok != token.DEFINE || s.Key == nil || s.Value == nil || !isIdent(s.Key, "_") {
			return nil, t.errf(st, "range loop not of the shape `for _, v := range E`")
		}
		e, err := t.expr(s.X)
		if err != nil {
			return nil, err
		}
		t.push()
		defer t.pop()
		v, err := t.newVar(st, s.Value)
		if err != nil {
			return nil, err
		}
		if v == "_" {
			return nil, t.errf(st, "range loop without an element variable")
		}
		// a token of a []Token has a type the translator knows (method calls on it are not used)
		t.declare(v, "")
		body, err := t.within("for", func() ([]wItem, error) { return t.block(s.Body.List) })
		if err != nil {
			return nil, err
		}
		return append(append([]wItem{lxCat([]string{"range", v}, e)}, body...), wItem{"end"}), nil
	case *ast.BranchStmt:
		if s.Tok == token.BREAK && s.Label == nil && len(t.ctx) > 0 && t.ctx[len(t.ctx)-1] == "for" {
			return []wItem{{"break"}}, nil
		}
		return nil, t.errf(st, "branch statement other than a `break` that leaves a loop directly")
	case *ast.ReturnStmt:
		if t.inDefer() {
			return nil, t.errf(st, "return inside a deferred closure")
		}
		e, err := t.exprs(s.Results)
		if err != nil {
			return nil, err
		}
		return []wItem{lxCat([]string{"return"}, e)}, nil
	case *ast.DeferStmt:
		fl, ok := s.Call.Fun.(*ast.FuncLit)
		if !ok || len(s.Call.Args) != 0 || fl.Type.Params.NumFields() != 0 || fl.Type.Results.NumFields() != 0 {
			return nil, t.errf(st, "defer not of the shape `defer func() { … }()`")
		}
		if len(t.ctx) != 0 || len(t.scopes) != 1 {
			return nil, t.errf(st, "defer that is not at the top level of the function body")
		}
		body, err := t.within("defer", func() ([]wItem, error) { return t.block(fl.Body.List) })
		if err != nil {
			return nil, err
		}
		return append(append([]wItem{{"defer"}}, body...), wItem{"end"}), nil
	}
	return nil, t.errf(st, "statement not of a known shape (%T)", st)
}

func (t *lxtrans) ifStmt(s *ast.IfStmt) ([]wItem, error) {
	if s.Init != nil {
		return nil, t.errf(s, "if with an initialiser")
	}
	c, err := t.expr(s.Cond)
	if err != nil {
		return nil, err
	}
	out := []wItem{lxCat([]string{"if"}, c)}
	body, err := t.block(s.Body.List)
	if err != nil {
		return nil, err
	}
	out = append(out, body...)
	switch e := s.Else.(type) {
	case nil:
	case *ast.BlockStmt:
		eb, err := t.block(e.List)
		if err != nil {
			return nil, err
		}
		out = append(append(out, wItem{"else"}), eb...)
	case *ast.IfStmt:
		eb, err := t.ifStmt(e)
		if err != nil {
			return nil, err
		}
		out = append(append(out, wItem{"else"}), eb...)
	default:
		return nil, t.errf(s, "else part")
	}
	return append(out, wItem{"end"}), nil
}

func (t *lxtrans) switchStmt(s *ast.SwitchStmt) ([]wItem, error) {
	if s.Init != nil {
		return nil, t.errf(s, "switch with an initialiser")
	}
	var tag []string
	if s.Tag != nil {
		id, ok := s.Tag.(*ast.Ident)
		if !ok {
			return nil, t.errf(s, "switch on something that is not a variable")
		}
		e, err := t.expr(id)
		if err != nil {
			return nil, err
		}
		if e[0] != "var" {
			return nil, t.errf(s, "switch on something that is not a variable")
		}
		tag = e
	}
	clauses := s.Body.List
	if len(clauses) == 0 {
		return nil, t.errf(s, "empty switch")
	}
	return t.within("switch", func() ([]wItem, error) { return t.cases(s, tag, clauses, true) })
}

func (t *lxtrans) cases(s *ast.SwitchStmt, tag []string, clauses []ast.Stmt, first bool) ([]wItem, error) {
	if len(clauses) == 0 {
		return nil, nil
	}
	cc := clauses[0].(*ast.CaseClause)
	if cc.List == nil {
		if len(clauses) != 1 || first {
			return nil, t.errf(s, "default clause that is not the last of several clauses")
		}
		return t.block(cc.Body)
	}
	var cond []string
	for i, e := range cc.List {
		c, err := t.expr(e)
		if err != nil {
			return nil, err
		}
		if tag != nil {
			c = lxCat([]string{"eq"}, tag, c)
		}
		if i == 0 {
			cond = c
		} else {
			cond = lxCat([]string{"or"}, cond, c)
		}
	}
	out := []wItem{lxCat([]string{"if"}, cond)}
	body, err := t.block(cc.Body)
	if err != nil {
		return nil, err
	}
	out = append(out, body...)
	rest, err := t.cases(s, tag, clauses[1:], false)
	if err != nil {
		return nil, err
	}
	if len(clauses) > 1 {
		out = append(append(out, wItem{"else"}), rest...)
	}
	return append(out, wItem{"end"}), nil
}

func (t *lxtrans) function(spec lxFuncSpec) ([]wItem, error) {
	t.pkg, t.unit = spec.pkg, spec.key
	fd := t.ex.funcDecl(spec.pkg, spec.recv, spec.name)
	if fd == nil || fd.Body == nil {
		return nil, fmt.Errorf("lexIR %s: function not found", spec.key)
	}
	if fd.Type.TypeParams != nil {
		return nil, fmt.Errorf("lexIR %s: type parameters", spec.key)
	}
	// the packages the file of the function imports (under their default names)
	t.imports = map[string]bool{}
	for _, f := range t.ex.pkgs[spec.pkg] {
		if f.Pos() <= fd.Pos() && fd.End() <= f.End() {
			for _, im := range f.Imports {
				p, _ := strconv.Unquote(im.Path.Value)
				name := p[strings.LastIndex(p, "/")+1:]
				if im.Name != nil {
					return nil, fmt.Errorf("lexIR %s: renamed import %s", spec.key, im.Name.Name)
				}
				t.imports[name] = true
			}
		}
	}
	t.scopes, t.ctx = nil, nil
	t.push()
	var out []wItem
	recvName, recvType := "", ""
	if fd.Recv != nil {
		f := fd.Recv.List[0]
		if len(f.Names) != 1 || f.Names[0].Name == "_" {
			return nil, fmt.Errorf("lexIR %s: unnamed receiver", spec.key)
		}
		recvName, recvType = f.Names[0].Name, typeString(f.Type)
		t.declare(recvName, recvType)
	}
	out = append(out, wItem{"func", recvName, recvType})
	for _, f := range fd.Type.Params.List {
		if len(f.Names) == 0 {
			return nil, fmt.Errorf("lexIR %s: unnamed parameter", spec.key)
		}
		if _, variadic := f.Type.(*ast.Ellipsis); variadic {
			return nil, fmt.Errorf("lexIR %s: variadic parameter", spec.key)
		}
		for _, n := range f.Names {
			if n.Name == "_" || t.imports[n.Name] {
				return nil, fmt.Errorf("lexIR %s: parameter %s", spec.key, n.Name)
			}
			t.declare(n.Name, typeString(f.Type))
			out = append(out, wItem{"param", n.Name, typeString(f.Type)})
		}
	}
	if fd.Type.Results != nil {
		for _, f := range fd.Type.Results.List {
			if len(f.Names) == 0 {
				out = append(out, wItem{"result", "", typeString(f.Type)})
			}
			for _, n := range f.Names {
				if n.Name == "_" || t.imports[n.Name] {
					return nil, fmt.Errorf("lexIR %s: result %s", spec.key, n.Name)
				}
				t.declare(n.Name, typeString(f.Type))
				out = append(out, wItem{"result", n.Name, typeString(f.Type)})
			}
		}
	}
	body, err := t.stmts(fd.Body.List)
	if err != nil {
		return nil, err
	}
	return append(out, body...), nil
}

func (ex *extractor) lxSection(sb *strings.Builder, name, doc string, specs []lxFuncSpec) error {
	t := &lxtrans{ex: ex}
	type unit struct {
		key   string
		items []wItem
	}
	var units []unit
	for _, sp := range specs {
		its, err := t.function(sp)
		if err != nil {
			return err
		}
		units = append(units, unit{sp.key, its})
	}
	fmt.Fprintf(sb, "/-- %s\n    as a flat prefix-coded IR (see harness/extract_lexir.go): (key, items) -/\n", doc)
	fmt.Fprintf(sb, "def %s : List (String × List (List String)) :=\n  [", name)
	for i, u := range units {
		if i > 0 {
			sb.WriteString(",\n   ")
		}
		fmt.Fprintf(sb, "(%s,\n    [", leanStr(u.key))
		for j, it := range u.items {
			if j > 0 {
				sb.WriteString(",\n     ")
			}
			sb.WriteString(leanStrList(it))
		}
		sb.WriteString("])")
	}
	sb.WriteString("]\n\n")
	return nil
}

func (ex *extractor) lexNumberIR(sb *strings.Builder) error {
	return ex.lxSection(sb, "lexNumberIR",
		"parser/span.go `newSpan`, `indexSpan`, `Span.IsValid`, `spanString`; parser/lex.go `(*scanner).next`, `prev`, `setPos`,\n    `normalizeNumberValue`, `(*scanner).numberExponent`, `(*scanner).numberOrDot`",
		[]lxFuncSpec{
			{"parser", "", "newSpan", "newSpan"}, {"parser", "", "indexSpan", "indexSpan"},
			{"parser", "Span", "IsValid", "Span.IsValid"}, {"parser", "", "spanString", "spanString"},
			{"parser", "*scanner", "next", "scanner.next"}, {"parser", "*scanner", "prev", "scanner.prev"},
			{"parser", "*scanner", "setPos", "scanner.setPos"},
			{"parser", "", "normalizeNumberValue", "normalizeNumberValue"},
			{"parser", "*scanner", "numberExponent", "scanner.numberExponent"},
			{"parser", "*scanner", "numberOrDot", "scanner.numberOrDot"},
		})
}

func (ex *extractor) lexSplitIR(sb *strings.Builder) error {
	return ex.lxSection(sb, "lexSplitIR", "parser/lex.go `SplitStatements`",
		[]lxFuncSpec{{"parser", "", "SplitStatements", "SplitStatements"}})
}

func (ex *extractor) linecolIR(sb *strings.Builder) error {
	return ex.lxSection(sb, "linecolIR", "`linecol` of parser/parser.go and its copy in pql.go",
		[]lxFuncSpec{{"parser", "", "linecol", "parser.linecol"}, {"pql", "", "linecol", "pql.linecol"}})
}

func (ex *extractor) litAccessIR(sb *strings.Builder) error {
	return ex.lxSection(sb, "litAccessIR", "parser/ast.go `(*BasicLit).IsFloat`, `IsInteger`, `Uint64`",
		[]lxFuncSpec{
			{"parser", "*BasicLit", "IsFloat", "BasicLit.IsFloat"}, {"parser", "*BasicLit", "IsInteger", "BasicLit.IsInteger"},
			{"parser", "*BasicLit", "Uint64", "BasicLit.Uint64"},
		})
}
