package main

import (
	"os"
	"math"
	"math/big"
	"strconv"
	"strings"

	"github.com/runreveal/pql/parser"
)

// runCase runs the real code for one case and returns the canonical result text.
func runCase(c Case) string {
	switch c.Op {
	case "SCAN":
		src := unhex(c.Fields[0])
		if len(src) <= 512 {
			parser.Scan(" " + src)
		}
		first := fmtTokens(parser.Scan(src))
		// history: Scan is a function of its argument
		if len(src) <= 512 || (os.Getenv("VERIF_MAGIC") != "" && len(src) <= 70000 && len(src) > 1) {
			others := []string{src[:len(src)/2], src + "'", "\ufeff" + src, src + src}
			if len(src) > 1 {
				others = append(others, src[:len(src)-1], src[:len(src)-len(src)/3])
			}
			for _, other := range others {
				parser.Scan(other)
				if again := fmtTokens(parser.Scan(src)); again != first {
					return again
				}
			}
		}
		return first
	case "SPLIT":
		// pieces ;; tokens(whole) ;; tokens(piece 1) ;; …
		src := unhex(c.Fields[0])
		parts := splitWithHistory(src)
		sb := new(strings.Builder)
		sb.WriteString(strconv.Itoa(len(parts)))
		for _, p := range parts {
			sb.WriteByte(' ')
			sb.WriteString(hexs(p))
		}
		sb.WriteString(" ;; ")
		sb.WriteString(fmtTokens(parser.Scan(src)))
		for _, p := range parts {
			sb.WriteString(" ;; ")
			sb.WriteString(fmtTokens(parser.Scan(p)))
		}
		return sb.String()
	}
	if c.Op == "NUM" {
		// NUM text | NOTNUM | value isFloat isInteger uint64
		toks := parser.Scan(unhex(c.Fields[0]))
		if len(toks) != 1 || toks[0].Kind != parser.TokenNumber {
			return "NOTNUM"
		}
		lit := &parser.BasicLit{Kind: toks[0].Kind, Value: toks[0].Value, ValueSpan: toks[0].Span}
		b := func(x bool) string {
			if x {
				return "t"
			}
			return "f"
		}
		u := "-"
		if lit.IsInteger() {
			u = strconv.FormatUint(lit.Uint64(), 10)
		}
		// Float64 against the nearest float64 of the literal's VALUE (math/big, independent of strconv's range
		// handling: the spelling, not the accessor, says what the number is; out of range = +Inf as ParseFloat rounds)
		f64 := "F64-"
		if r, ok := new(big.Rat).SetString(lit.Value); ok {
			want, _ := r.Float64()
			got := lit.Float64()
			switch {
			case math.IsInf(want, 0):
				f64 = "F64-" // beyond the float64 range: the documented behaviour there is not fixed by the property
			case got == want:
				f64 = "F64ok"
			default:
				f64 = "F64BAD"
			}
		}
		return hexs(lit.Value) + " " + b(lit.IsFloat()) + " " + b(lit.IsInteger()) + " " + u + " " + f64
	}
	if f, ok := moreOps[c.Op]; ok {
		return f(c)
	}
	return "UNKNOWN-OP"
}

var moreOps = map[string]func(c Case) string{}

// splitWithHistory calls SplitStatements(src) first on its own and then again after calls on
// prefixes of src (a growing buffer is how cmd/pql uses it).  A pure implementation answers the
// same every time; if some answer differs, that one is returned, so that the disagreement with
// the model and the oracle clauses on the implementation's output report it.
func splitWithHistory(src string) []string {
	first := parser.SplitStatements(src)
	same := func(a, b []string) bool {
		if len(a) != len(b) {
			return false
		}
		for i := range a {
			if a[i] != b[i] {
				return false
			}
		}
		return true
	}
	// prefixes ending just after a white-space byte (at most 6, spread over the source), and a few others
	var cuts []int
	for i := 1; i < len(src); i++ {
		switch src[i-1] {
		case ' ', '\t', '\n', '\r':
			cuts = append(cuts, i)
		}
	}
	if len(cuts) > 6 {
		step := len(cuts) / 6
		var c2 []int
		for i := 0; i < len(cuts); i += step {
			c2 = append(c2, cuts[i])
		}
		cuts = append(c2, cuts[len(cuts)-1])
	}
	if len(src) > 1 {
		cuts = append(cuts, len(src)/2, len(src)-1)
	}
	for _, k := range cuts {
		parser.SplitStatements(src[:k])
		if again := parser.SplitStatements(src); !same(first, again) {
			return again
		}
	}
	return first
}

// fmtTokens prints kind, span and value of each token; the value of an error token is
// message text and is not compared.
func fmtTokens(toks []parser.Token) string {
	sb := new(strings.Builder)
	sb.WriteString(strconv.Itoa(len(toks)))
	for _, t := range toks {
		sb.WriteByte(' ')
		sb.WriteString(kindName(t.Kind))
		sb.WriteByte(' ')
		sb.WriteString(strconv.Itoa(t.Span.Start))
		sb.WriteByte(' ')
		sb.WriteString(strconv.Itoa(t.Span.End))
		sb.WriteByte(' ')
		if t.Kind == parser.TokenError {
			sb.WriteString("-")
		} else {
			sb.WriteString(hexs(t.Value))
		}
	}
	return sb.String()
}

var kindNames = map[parser.TokenKind]string{
	parser.TokenIdentifier:        "TokenIdentifier",
	parser.TokenQuotedIdentifier:  "TokenQuotedIdentifier",
	parser.TokenNumber:            "TokenNumber",
	parser.TokenString:            "TokenString",
	parser.TokenAnd:               "TokenAnd",
	parser.TokenOr:                "TokenOr",
	parser.TokenPipe:              "TokenPipe",
	parser.TokenDot:               "TokenDot",
	parser.TokenComma:             "TokenComma",
	parser.TokenPlus:              "TokenPlus",
	parser.TokenMinus:             "TokenMinus",
	parser.TokenStar:              "TokenStar",
	parser.TokenSlash:             "TokenSlash",
	parser.TokenMod:               "TokenMod",
	parser.TokenAssign:            "TokenAssign",
	parser.TokenEq:                "TokenEq",
	parser.TokenNE:                "TokenNE",
	parser.TokenLT:                "TokenLT",
	parser.TokenLE:                "TokenLE",
	parser.TokenGT:                "TokenGT",
	parser.TokenGE:                "TokenGE",
	parser.TokenCaseInsensitiveEq: "TokenCaseInsensitiveEq",
	parser.TokenCaseInsensitiveNE: "TokenCaseInsensitiveNE",
	parser.TokenLParen:            "TokenLParen",
	parser.TokenRParen:            "TokenRParen",
	parser.TokenLBracket:          "TokenLBracket",
	parser.TokenRBracket:          "TokenRBracket",
	parser.TokenIn:                "TokenIn",
	parser.TokenBy:                "TokenBy",
	parser.TokenSemi:              "TokenSemi",
	parser.TokenError:             "TokenError",
}

func kindName(k parser.TokenKind) string {
	if n, ok := kindNames[k]; ok {
		return n
	}
	return "Token#" + strconv.Itoa(int(k))
}
